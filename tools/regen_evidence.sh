#!/bin/sh
# Re-run every quick check on the current (clean) tree so that the committed evidence describes such a run.
cd /verif || exit 2
git -C /repo status --short | grep -v '^??' && { echo "/repo dirty"; exit 2; }
rc=0
for id in $(/venv/bin/python -c "import json;print(' '.join(c['property_id'] for c in json.load(open('MANIFEST.json'))['checks']))"); do
  out=$(VERIF_TIER=quick bin/check $id --tier quick 2>&1 | tail -1 | cut -c1-200)
  echo "$out"
  case "$out" in *"new_violations=0"*) ;; *) rc=1;; esac
done
exit $rc
