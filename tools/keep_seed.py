#!/venv/bin/python
"""keep_seed.py <worktree> <name> <caught-by comma list> <result text>: archive a confirmed seed under /verif/seeded/<name>/."""
import json, os, shutil, sys
wt, name, caught, result = sys.argv[1:5]
src = os.path.join(wt, "seeded", name)
dst = os.path.join("/verif/seeded", name)
os.makedirs(dst, exist_ok=True)
for f in ("patch.diff", "demo.py"):
    shutil.copy(os.path.join(src, f), os.path.join(dst, f))
meta = json.load(open(os.path.join(src, "meta.json")))
meta["confirmed"] = "scratch worktree: demo exits 0 on the clean tree and non-zero with the patch; repository test suite (76 tests) still passes with the patch (tools/confirm_seed.sh)"
meta["ran"] = f"tools/run_seed.sh seeded/{name}/patch.diff " + " ".join(caught.split(",")) if caught else ""
meta["caught_by"] = [c for c in caught.split(",") if c]
meta["result"] = result
meta["base_commit"] = os.popen(f"git -C {wt} rev-parse --short HEAD").read().strip()
json.dump(meta, open(os.path.join(dst, "meta.json"), "w"), indent=1)
print("kept", name)
