#!/bin/sh
# usage: confirm_seed.sh <worktree> <seed-dir-name>   e.g. /tmp/wt-C09 C09-a
# Confirms in the scratch worktree: clean -> demo exits 0; patched -> demo exits !=0 and test-suite passes.
wt=$1; name=$2; sd=$wt/seeded/$name
cd $wt || exit 2
git checkout -q -- . ; git status --short | grep -v '^??' && { echo "worktree dirty"; exit 2; }
PYTHONPATH=$wt /venv/bin/python $sd/demo.py >/dev/null 2>&1; c0=$?
git apply $sd/patch.diff || { echo "patch does not apply"; exit 2; }
PYTHONPATH=$wt /venv/bin/python $sd/demo.py >/dev/null 2>&1; c1=$?
t=$(/venv/bin/python -m pytest -q -p no:cacheprovider --timeout=900 --deselect test/simulations/test_run_infretis.py::test_restart_multiple_w 2>&1 | tail -1)
git checkout -q -- .
rm -f $wt/infretis_data*.txt $wt/worker*.log
echo "$name: demo clean=$c0 patched=$c1 tests: $t"
