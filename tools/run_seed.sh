#!/bin/sh
# usage: run_seed.sh <patch.diff> <ID> [<ID>...]  — apply to /repo, run the quick checks, undo.
p=$1; shift
cd /repo && git status --short | grep -v '^??' && { echo "/repo dirty"; exit 2; }
git -C /repo apply "$p" || exit 2
for id in "$@"; do
  out=$(cd /verif && bin/check $id --tier ${TIER:-quick} 2>&1)
  rc=$?
  echo "== $id rc=$rc $(echo "$out" | grep -c '^VIOLATION') violation(s)"
  echo "$out" | grep -A0 '^  ' | cut -c1-220 | head -4
done
git -C /repo checkout -- .
