"""Virtual asyncio world for the real infretis.asyncrunner.aiorunner.

The module-level names asyncio / threading / concurrent / multiprocessing /
time of infretis.asyncrunner are rebound to shims:
  * new_event_loop() -> VirtualLoop (a real asyncio.BaseEventLoop subclass with
    its own clock and no selector), stepped one ready handle / one timer batch
    at a time by the explorer;
  * Thread -> an object that never runs (the loop is stepped by hand);
  * ProcessPoolExecutor -> FakeExecutor whose futures the explorer completes,
    in any order, by actually calling the submitted function;
  * time.sleep and the asyncio.sleep used from a temporary real loop (stop())
    are scheduling points;
  * run_coroutine_threadsafe(...).result() drains the virtual loop.
Main-thread API calls are atomic events interleaved with loop steps (GIL-level
atomicity of the deque/flag operations involved); bytecode-level races between
the two real threads are NOT explored.
"""

from __future__ import annotations

import asyncio
import asyncio.events as events
import concurrent.futures
import heapq
import types


class VirtualLoop(asyncio.BaseEventLoop):
    def __init__(self, world):
        super().__init__()
        self.world = world
        self._vtime = 0.0
        self.errors = []
        self.set_exception_handler(self._on_error)
        self.stopped_flag = False

    def _on_error(self, loop, context):
        self.errors.append(str(context.get("exception") or context.get("message")))

    def time(self):
        return self._vtime

    def _process_events(self, event_list):
        pass

    def _write_to_self(self):
        pass

    # -- hand stepping ---------------------------------------------------
    def has_ready(self):
        return bool(self._ready)

    def has_timers(self):
        return any(not h._cancelled for h in self._scheduled)

    def step(self):
        """Run exactly one ready handle."""
        handle = self._ready.popleft()
        if handle._cancelled:
            return
        prev = events._get_running_loop()
        events._set_running_loop(None)
        events._set_running_loop(self)
        try:
            handle._run()
        finally:
            events._set_running_loop(None)
            if prev is not None:
                events._set_running_loop(prev)
        if self._stopping:
            self.stopped_flag = True

    def tick(self):
        """Advance the clock to the earliest timer and make due timers ready."""
        while self._scheduled and self._scheduled[0]._cancelled:
            h = heapq.heappop(self._scheduled)
            h._scheduled = False
        if not self._scheduled:
            return
        self._vtime = max(self._vtime, self._scheduled[0]._when)
        while self._scheduled and self._scheduled[0]._when <= self._vtime:
            h = heapq.heappop(self._scheduled)
            h._scheduled = False
            if not h._cancelled:
                self._ready.append(h)


class FakeExecutor(concurrent.futures.Executor):
    def __init__(self, world, *a, **k):
        self.world = world
        self.pending = []  # (concurrent future, fn)
        self.shutdown_called = 0

    def submit(self, fn, *args, **kwargs):
        f = concurrent.futures.Future()
        self.pending.append((f, fn, args, kwargs))
        self.world.log.append(("exec-submit", len(self.world.exec_log)))
        return f

    def complete(self, j):
        f, fn, args, kwargs = self.pending.pop(j)
        f.set_running_or_notify_cancel()
        try:
            res = fn(*args, **kwargs)
        except Exception as e:  # noqa: BLE001
            f.set_exception(e)
        else:
            f.set_result(res)

    def shutdown(self, wait=True, *, cancel_futures=False):
        self.shutdown_called += 1


class _Thread:
    def __init__(self, world, target=None, daemon=None, **k):
        self.world = world
        self.target = target

    def start(self):
        self.world.thread_started += 1

    def join(self, timeout=None):
        # the loop thread ends when the loop processes its stop request
        self.world.drain(until=lambda: self.world.loop.stopped_flag, label="join")
        self.world.thread_joined += 1


class _CoroFuture:
    def __init__(self, world, cf):
        self.world = world
        self.cf = cf

    def result(self, timeout=None):
        self.world.drain(until=self.cf.done, label="start")
        return self.cf.result(0)


class World:
    """One controlled run of the real aiorunner."""

    def __init__(self, chooser, horizon=600):
        self.ch = chooser
        self.horizon = horizon
        self.actions = 0
        self.log = []
        self.exec_log = []
        self.loop = None
        self.executor = None
        self.thread_started = 0
        self.thread_joined = 0
        self.in_main = False
        # canonical schedule inside blocking main-thread calls: eager = executor jobs finish as soon as the
        # loop has nothing ready; lazy = they finish only when neither a ready handle nor a timer is left
        self.lazy = False
        self.idle_quanta = 0

    # -- shims -------------------------------------------------------------
    def install(self):
        import infretis.asyncrunner as ar

        world = self
        self._ar = ar
        self._saved = {k: getattr(ar, k) for k in ("asyncio", "threading", "concurrent", "multiprocessing", "time")}

        aio = types.ModuleType("asyncio_shim")
        for name in dir(asyncio):
            if not name.startswith("__"):
                setattr(aio, name, getattr(asyncio, name))

        def new_event_loop():
            world.loop = VirtualLoop(world)
            return world.loop

        def run_coroutine_threadsafe(coro, loop):
            return _CoroFuture(world, asyncio.run_coroutine_threadsafe(coro, loop))

        real_sleep = asyncio.sleep

        async def sleep(delay, result=None):
            running = events._get_running_loop()
            if isinstance(running, VirtualLoop):
                return await real_sleep(delay, result)
            # a temporary real loop on the main thread (stop()): scheduling point
            world.quantum("sleep-in-stop")
            return await real_sleep(0, result)

        aio.new_event_loop = new_event_loop
        aio.run_coroutine_threadsafe = run_coroutine_threadsafe
        aio.sleep = sleep
        ar.asyncio = aio

        thr = types.SimpleNamespace(Thread=lambda *a, **k: _Thread(world, *a, **k))
        ar.threading = thr

        def ppe(*a, **k):
            world.executor = FakeExecutor(world)
            return world.executor

        ar.concurrent = types.SimpleNamespace(futures=types.SimpleNamespace(
            ProcessPoolExecutor=ppe, Executor=concurrent.futures.Executor))
        ar.multiprocessing = types.SimpleNamespace(Value=lambda *a, **k: None, get_context=lambda *a, **k: None)
        ar.time = types.SimpleNamespace(sleep=lambda d: world.quantum("time.sleep"), time=lambda: 0.0)

    def uninstall(self):
        for k, v in self._saved.items():
            setattr(self._ar, k, v)
        if self.loop is not None and not self.loop.is_closed():
            try:
                # cancel leftovers so that nothing leaks into the next execution
                for t in asyncio.all_tasks(self.loop):
                    t.cancel()
                self.loop._ready.clear()
                self.loop._scheduled.clear()
                self.loop.close()
            except Exception:  # noqa: BLE001
                pass

    # -- scheduling ----------------------------------------------------------
    def _count(self):
        self.actions += 1
        if self.actions > self.horizon:
            from vf.explore import Pruned

            raise Pruned("horizon")

    def enabled(self, main_enabled):
        en = []
        if self.loop is not None and self.loop.has_ready():
            en.append(("step",))
        if self.executor is not None:
            for j in range(len(self.executor.pending)):
                en.append(("complete", j))
        if main_enabled:
            en.append(("main",))
        if self.loop is not None and self.loop.has_timers():
            en.append(("tick",))
        return en

    def perform(self, act):
        self._count()
        self.log.append(act)
        if act[0] == "step":
            self.loop.step()
        elif act[0] == "complete":
            self.executor.complete(act[1])
        elif act[0] == "tick":
            self.loop.tick()

    def quantum(self, label):
        """A scheduling point inside a blocking main-thread call: the other side
        runs some steps, then control returns.  Default: drain ready handles and
        executor completions, then one timer tick."""
        ticked = False
        while True:
            en = [a for a in self.enabled(False)]
            opts = [("return",)] + en
            # default: first non-timer action if any; else one tick (once); else return
            nont = [a for a in en if a[0] != "tick"]
            steps = [a for a in en if a[0] == "step"]
            comps = [a for a in en if a[0] == "complete"]
            if self.lazy and steps:
                order = steps + [("return",)] + comps + [a for a in en if a[0] == "tick"]
            elif self.lazy and ("tick",) in en and not ticked:
                order = [("tick",), ("return",)] + comps
            elif self.lazy:
                # nothing but executor jobs left: a slow executor lets the main thread come back a few times
                # empty-handed before a job finishes (fairness: it does finish eventually)
                self.idle_quanta += 1
                if self.idle_quanta > 2:
                    order = comps + [("return",)] + [a for a in en if a[0] == "tick"]
                else:
                    order = [("return",)] + comps + [a for a in en if a[0] == "tick"]
            elif nont:
                order = nont + [("return",)] + [a for a in en if a[0] == "tick"]
            elif ("tick",) in en and not ticked:
                order = [("tick",), ("return",)]
            else:
                order = [("return",)] + en
            c = self.ch.choose(len(order), f"q:{label}") if len(order) > 1 else 0
            act = order[c]
            if act[0] == "return":
                self._count()
                return
            if act[0] == "tick":
                ticked = True
            if act[0] in ("step", "complete"):
                self.idle_quanta = 0
            self.perform(act)

    def drain(self, until, label):
        """Blocking wait of the main thread on something only the loop can do."""
        while not until():
            en = self.enabled(False)
            if not en:
                raise Deadlock(f"main thread waits in {label} but nothing is enabled")
            c = self.ch.choose(len(en), f"d:{label}") if len(en) > 1 else 0
            self.perform(en[c])


class Deadlock(Exception):
    pass
