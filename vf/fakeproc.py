"""Controlled external MD programs.

``subprocess.Popen`` (as seen from an engine module), ``sleep`` and
``os.killpg/getpgid`` are replaced by objects driven by the explorer.  A fake
program is a Python object that, from the input file the engine wrote,
produces the bytes a real program would append to its output files for a
deterministic toy dynamics (free flight, box changing per frame).  At every
``sleep()`` the explorer chooses how far the writer advances (to the next
frame boundary, two frames, nothing, to the end with rc 0, or death with
rc != 0).  After two idle polls in a row the writer must advance (fairness), so
wait loops cannot spin the exploration.
"""

from __future__ import annotations

import os
import types

import numpy as np


class FakeProc:
    _next_pid = 4000

    def __init__(self, world, program):
        FakeProc._next_pid += 1
        self.pid = FakeProc._next_pid
        self.world = world
        self.program = program
        self.returncode = None
        self.killed = False
        self.dying = None  # polls left before a signalled process is really gone (world.kill_latency)
        self.waited = 0
        self.stdin = self.stdout = self.stderr = None

    def poll(self):
        if self.dying is not None and self.returncode is None:
            self.dying -= 1
            if self.dying <= 0:
                self.returncode = -15
        return self.returncode

    def wait(self, timeout=None):
        self.waited += 1
        if self.dying is not None and self.returncode is None:
            self.returncode = -15  # waiting for a signalled process lets it finish dying
        if self.returncode is None:
            raise RuntimeError("wait() on a fake process that is still running")
        return self.returncode

    def communicate(self, input=None, timeout=None):
        # programs run through execute_command: run to completion at once
        self.program.finish()
        self.returncode = 0
        return (b"", b"")

    def terminate(self):
        self.kill_()

    def kill(self):
        self.kill_()

    def kill_(self):
        if self.returncode is None:
            self.killed = True
            lat = getattr(self.world, "kill_latency", 0)
            if lat:
                # slow teardown (mpirun): the process stays 'running' for a few more polls
                if self.dying is None:
                    self.dying = lat
            else:
                self.returncode = -15


class World:
    def __init__(self, chooser, program_factory, menu=("frame", "2frames", "stay", "finish", "die")):
        self.ch = chooser
        self.factory = program_factory
        self.menu = menu
        self.procs = []
        self.idle = 0
        self.sleeps = 0
        self.max_visible_per_poll = 0
        self.kill_latency = 0

    # -- shims -----------------------------------------------------------
    def Popen(self, cmd, **kw):
        prog = self.factory(cmd, kw.get("cwd"))
        p = FakeProc(self, prog)
        self.procs.append(p)
        return p

    def sleep(self, dt=0):
        self.sleeps += 1
        if self.sleeps > 500:
            raise RuntimeError("fake-process horizon exceeded (engine keeps polling)")
        live = [p for p in self.procs if p.returncode is None and p.dying is None]
        if not live:
            return
        p = live[-1]
        opts = [m for m in self.menu if m != "stay" or self.idle < 2]
        if p.program.done():
            opts = [m for m in opts if m in ("finish", "die", "sig", "stay")] or ["finish"]
        c = self.ch.choose(len(opts), "proc") if len(opts) > 1 else 0
        act = opts[c]
        if act == "stay":
            self.idle += 1
            return
        self.idle = 0
        if act == "frame":
            p.program.advance(1)
        elif act == "2frames":
            p.program.advance(2)
        elif act == "finish":
            p.program.finish()
            p.returncode = 0
        elif act in ("pos", "vel"):
            p.program.advance(1, what=act)
        elif act == "die":
            p.program.advance(1, partial=True)
            p.returncode = 1
        elif act == "sig":
            # killed by a signal (not by us): negative return code
            p.returncode = -11
        if p.program.done() and p.returncode is None and act in ("frame", "2frames"):
            # the program wrote its last frame: it exits on its own at the next poll or later
            pass

    def killpg(self, pgid, sig):
        for p in self.procs:
            if p.pid == pgid:
                p.kill_()

    def getpgid(self, pid):
        return pid

    def patch(self, module):
        """Rebind subprocess / sleep / os in an engine module's namespace."""
        saved = {}
        world = self
        if hasattr(module, "subprocess"):
            saved["subprocess"] = module.subprocess
            shim = types.SimpleNamespace(**{k: getattr(module.subprocess, k) for k in ("PIPE", "STDOUT", "DEVNULL")})
            shim.Popen = world.Popen
            module.subprocess = shim
        if hasattr(module, "sleep"):
            saved["sleep"] = module.sleep
            module.sleep = world.sleep
        if hasattr(module, "os"):
            saved["os"] = module.os
            real_os = module.os

            class OsProxy:
                def __getattr__(self, name):
                    return getattr(real_os, name)

                killpg = staticmethod(world.killpg)
                getpgid = staticmethod(world.getpgid)
                setsid = staticmethod(lambda: None)

            module.os = OsProxy()
        if not hasattr(self, "_patched"):
            self._patched = []
        self._patched.append((module, saved))
        return self

    def unpatch(self):
        for module, saved in self._patched:
            for k, v in saved.items():
                setattr(module, k, v)
        self._patched = []


# ---------------------------------------------------------------------------
# toy dynamics
# ---------------------------------------------------------------------------


class Flight:
    """Free flight of N atoms: pos_k = pos_0 + k * vel (per MD step);
    box of frame k taken from ``boxes`` cyclically (frame 0 = box of the
    initial configuration)."""

    def __init__(self, pos, vel, box0, boxes=None):
        self.pos0 = np.array(pos, dtype=float)
        self.vel = np.array(vel, dtype=float)
        self.box0 = np.array(box0, dtype=float)
        self.boxes = [np.array(b, dtype=float) for b in (boxes or [])]

    def frame(self, k, subcycles):
        pos = self.pos0 + k * subcycles * self.vel
        box = self.box0 if (k == 0 or not self.boxes) else self.boxes[(k - 1) % len(self.boxes)]
        return pos, self.vel.copy(), box


def parse_lammps_vars(path):
    out = {}
    with open(path) as f:
        for line in f:
            sp = line.split()
            if len(sp) >= 4 and sp[0] == "variable" and sp[2] == "index":
                out[sp[1]] = sp[3]
    return out


class LammpsProgram:
    """Fake LAMMPS: dump custom id type x y z vx vy vz id, every `subcycles` steps."""

    def __init__(self, cmd, cwd, boxes=None, record=None):
        self.cwd = cwd
        inp = cmd[cmd.index("-i") + 1]
        v = parse_lammps_vars(inp)
        self.vars = v
        self.name = v["name"]
        self.subcycles = int(v["subcycles"])
        self.nsteps = int(v["nsteps"])
        self.seed = v.get("seed")
        self.nframes = self.nsteps // self.subcycles + 1
        # read_dump ${initconf}: positions, velocities and box of the start configuration
        from infretis.classes.engines.lammps import read_lammpstrj

        id_type, pos, vel, box = read_lammpstrj(v["initconf"], 0, 2)
        self.id_type = id_type
        self.flight = Flight(pos, vel, box[:, :2], boxes)
        self.traj = os.path.join(cwd, f"{self.name}.lammpstrj")
        self.k = 0
        self.written = []  # (pos, vel, box) per frame written completely
        self.record = record
        # thermo output
        with open(os.path.join(cwd, "log.lammps"), "w") as f:
            f.write("Step KinEng PotEng TotEng Temp\n")
            for s in range(0, self.nsteps + 1, self.subcycles):
                f.write(f"{s} {0.5 + s} {-1.0 - s} {-0.5} 300.0\n")
            f.write("Loop time of 0.1\n")
        if record is not None:
            record.append(self)

    def frame_text(self, k):
        pos, vel, box = self.flight.frame(k, self.subcycles)
        lines = ["ITEM: TIMESTEP\n", f"{k * self.subcycles}\n", "ITEM: NUMBER OF ATOMS\n", f"{len(pos)}\n",
                 "ITEM: BOX BOUNDS pp pp pp\n"]
        for d in range(3):
            lines.append(f"{box[d, 0]:.16e} {box[d, 1]:.16e}\n")
        lines.append("ITEM: ATOMS id type x y z vx vy vz id\n")
        # LAMMPS does not sort atoms: write them in reverse id order
        for a in reversed(range(len(pos))):
            lines.append(f"{a + 1} 1 " + " ".join(f"{x:.10g}" for x in pos[a]) + " " + " ".join(f"{x:.10g}" for x in vel[a]) + f" {a + 1}\n")
        return "".join(lines), (pos, vel, box)

    def done(self):
        return self.k >= self.nframes

    def advance(self, n, partial=False):
        for _ in range(n):
            if self.done():
                return
            txt, fr = self.frame_text(self.k)
            with open(self.traj, "a") as f:
                if partial:
                    f.write(txt[: len(txt) // 2])
                    return
                f.write(txt)
            self.written.append(fr)
            self.k += 1

    def finish(self):
        while not self.done():
            self.advance(1)


# ---------------------------------------------------------------------------
# CP2K
# ---------------------------------------------------------------------------


def parse_cp2k_run_inp(path):
    """Minimal reader of what the fake CP2K needs from run.inp."""
    out = dict(project="MD", steps=0, vel=[], coord=None, each=1)
    sect = []
    with open(path) as f:
        for line in f:
            t = line.strip()
            if not t or t.startswith("#"):
                continue
            if t.upper().startswith("&END"):
                if sect:
                    sect.pop()
                continue
            if t.startswith("&"):
                sect.append(t[1:].split()[0].upper())
                continue
            sp = t.split()
            key = sp[0].upper()
            if sect and sect[-1] == "VELOCITY":
                out["vel"].append([float(x) for x in sp[:3]])
            elif key == "PROJECT":
                out["project"] = sp[1]
            elif key == "STEPS" and "MD" in sect:
                out["steps"] = int(sp[1])
            elif key == "COORD_FILE_NAME":
                out["coord"] = sp[1]
            elif key == "MD" and sect and sect[-1] == "EACH" and "TRAJECTORY" in sect:
                out["each"] = int(sp[1])
    return out


class Cp2kProgram:
    """Fake CP2K: <project>-pos-1.xyz and <project>-vel-1.xyz, one frame every `each` steps,
    written independently (the two files need not be in step)."""

    def __init__(self, cmd, cwd, record=None):
        self.cwd = cwd
        inp = os.path.join(cwd, cmd[cmd.index("-i") + 1])
        v = parse_cp2k_run_inp(inp)
        self.inp = v
        self.name = v["project"]
        self.each = max(1, v["each"])
        self.nframes = v["steps"] // self.each + 1
        from infretis.classes.engines.engineparts import convert_snapshot, read_xyz_file

        for snap in read_xyz_file(os.path.join(cwd, v["coord"])):
            _, xyz, _, names = convert_snapshot(snap)
            break
        self.names = names
        self.flight = Flight(xyz, np.array(v["vel"], dtype=float), np.zeros((3, 2)))
        self.pos_file = os.path.join(cwd, f"{self.name}-pos-1.xyz")
        self.vel_file = os.path.join(cwd, f"{self.name}-vel-1.xyz")
        self.kp = 0
        self.kv = 0
        with open(os.path.join(cwd, f"{self.name}-1.ener"), "w") as f:
            f.write("# Step Time Kin Temp Pot Cons UsedTime\n")
            for s in range(0, v["steps"] + 1):
                f.write(f"{s} {0.5 * s} {0.001 * (s + 1)} 300.0 {-1.0 - 0.01 * s} -1.0 0.1\n")
        if record is not None:
            record.append(self)

    def _frame(self, k, what):
        pos, vel, _ = self.flight.frame(k, self.each)
        arr = pos if what == "pos" else vel
        lines = [f"{len(arr):8d}\n", f" i = {k * self.each:8d}, time = {0.5 * k:12.3f}, E = {-1.0:20.10f}\n"]
        for nm, row in zip(self.names, arr):
            lines.append(f"  {nm} {row[0]:20.10f} {row[1]:20.10f} {row[2]:20.10f}\n")
        return "".join(lines)

    def done(self):
        return self.kp >= self.nframes and self.kv >= self.nframes

    def advance(self, n, partial=False, what="both"):
        for _ in range(n):
            if what in ("both", "pos") and self.kp < self.nframes:
                txt = self._frame(self.kp, "pos")
                with open(self.pos_file, "a") as f:
                    f.write(txt[: len(txt) // 2] if partial else txt)
                if not partial:
                    self.kp += 1
            if what in ("both", "vel") and self.kv < self.nframes:
                txt = self._frame(self.kv, "vel")
                with open(self.vel_file, "a") as f:
                    f.write(txt[: len(txt) // 2] if partial else txt)
                if not partial:
                    self.kv += 1
            if partial:
                return

    def finish(self):
        while not self.done():
            self.advance(1)


# ---------------------------------------------------------------------------
# GROMACS (grompp / mdrun / energy)
# ---------------------------------------------------------------------------


class GmxProgram:
    """Fake gmx: 'grompp' records its inputs in the tpr file, 'mdrun' writes
    <deffnm>.trr / .edr frame by frame (big-endian single precision as GROMACS
    does), 'energy' writes energy.xvg."""

    def __init__(self, cmd, cwd, boxes=None, record=None, registry=None):
        self.cmd = list(cmd)
        self.cwd = cwd
        self.kind = next((c for c in cmd if c in ("grompp", "mdrun", "energy")), "other")
        self.registry = registry if registry is not None else {}
        self.k = 0
        self.nframes = 0
        self.written = []
        self.boxes = boxes
        if self.kind == "mdrun":
            self.deffnm = cmd[cmd.index("-deffnm") + 1]
            tpr = cmd[cmd.index("-s") + 1]
            info = self.registry[os.path.basename(tpr)]
            from infretis.classes.engines.enginebase import EngineBase
            from infretis.classes.engines.gromacs import read_gromos96_file

            mdp = EngineBase._read_input_settings(info["mdp"])
            self.nsteps = int(mdp["nsteps"])
            self.nst = max(1, int(mdp.get("nstxout", 1)))
            self.nframes = self.nsteps // self.nst + 1
            _, xyz, vel, box = read_gromos96_file(info["conf"])
            self.flight = Flight(xyz, vel, np.diag(box[:3]), [np.diag(b) for b in (boxes or [])])
            self.trr = os.path.join(cwd, f"{self.deffnm}.trr")
            self.edr = os.path.join(cwd, f"{self.deffnm}.edr")
            if record is not None:
                record.append(self)

    def _frame_bytes(self, k):
        from vf.ref import trr

        pos, vel, box = self.flight.frame(k, self.nst)
        b, _ = trr.encode_frame(pos, vel, None, box, step=k * self.nst, time=0.1 * k, endian=">", double=False)
        return b, (pos, vel, box)

    def done(self):
        return self.kind != "mdrun" or self.k >= self.nframes

    def advance(self, n, partial=False):
        if self.kind != "mdrun":
            return
        for _ in range(n):
            if self.k >= self.nframes:
                return
            if self.k == 0 and not os.path.exists(self.edr):
                with open(self.edr, "wb") as f:
                    f.write(b"edr")
            b, fr = self._frame_bytes(self.k)
            with open(self.trr, "ab") as f:
                if partial:
                    f.write(b[: len(b) // 2])
                    return
                f.write(b)
            self.written.append(fr)
            self.k += 1

    def finish(self):
        if self.kind == "grompp":
            c = self.cmd
            tpr = c[c.index("-o") + 1]
            self.registry[os.path.basename(tpr)] = dict(mdp=c[c.index("-f") + 1], conf=c[c.index("-c") + 1])
            with open(os.path.join(self.cwd, tpr), "w") as f:
                f.write("fake tpr\n")
            with open(os.path.join(self.cwd, "mdout.mdp"), "w") as f:
                f.write("; fake\n")
        elif self.kind == "energy":
            with open(os.path.join(self.cwd, "energy.xvg"), "w") as f:
                f.write('@ s0 legend "Potential"\n@ s1 legend "Kinetic En."\n')
                for k in range(200):
                    f.write(f"{0.1 * k} {-1.0 - k} {0.5 + k}\n")
        else:
            while not self.done():
                self.advance(1)
