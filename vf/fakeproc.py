"""Controlled external MD programs.

``subprocess.Popen`` (as seen from an engine module), ``sleep`` and
``os.killpg/getpgid`` are replaced by objects driven by the explorer.  A fake
program is a Python object that, from the input file the engine wrote,
produces the bytes a real program would append to its output files for a
deterministic toy dynamics (free flight, box changing per frame).  At every
``sleep()`` the explorer chooses how far the writer advances (to the next
frame boundary, two frames, nothing, to the end with rc 0, or death with
rc != 0).  After two idle polls in a row the writer must advance (fairness), so
wait loops cannot spin the exploration.
"""

from __future__ import annotations

import os
import types

import numpy as np


class FakeProc:
    _next_pid = 4000

    def __init__(self, world, program):
        FakeProc._next_pid += 1
        self.pid = FakeProc._next_pid
        self.world = world
        self.program = program
        self.returncode = None
        self.killed = False
        self.waited = 0
        self.stdin = self.stdout = self.stderr = None

    def poll(self):
        return self.returncode

    def wait(self, timeout=None):
        self.waited += 1
        if self.returncode is None:
            raise RuntimeError("wait() on a fake process that is still running")
        return self.returncode

    def communicate(self, input=None, timeout=None):
        # programs run through execute_command: run to completion at once
        self.program.finish()
        self.returncode = 0
        return (b"", b"")

    def terminate(self):
        self.kill_()

    def kill(self):
        self.kill_()

    def kill_(self):
        if self.returncode is None:
            self.killed = True
            self.returncode = -15


class World:
    def __init__(self, chooser, program_factory, menu=("frame", "2frames", "stay", "finish", "die")):
        self.ch = chooser
        self.factory = program_factory
        self.menu = menu
        self.procs = []
        self.idle = 0
        self.sleeps = 0
        self.max_visible_per_poll = 0

    # -- shims -----------------------------------------------------------
    def Popen(self, cmd, **kw):
        prog = self.factory(cmd, kw.get("cwd"))
        p = FakeProc(self, prog)
        self.procs.append(p)
        return p

    def sleep(self, dt=0):
        self.sleeps += 1
        if self.sleeps > 500:
            raise RuntimeError("fake-process horizon exceeded (engine keeps polling)")
        live = [p for p in self.procs if p.returncode is None]
        if not live:
            return
        p = live[-1]
        opts = [m for m in self.menu if m != "stay" or self.idle < 2]
        if p.program.done():
            opts = [m for m in opts if m in ("finish", "die", "stay")]
        c = self.ch.choose(len(opts), "proc") if len(opts) > 1 else 0
        act = opts[c]
        if act == "stay":
            self.idle += 1
            return
        self.idle = 0
        if act == "frame":
            p.program.advance(1)
        elif act == "2frames":
            p.program.advance(2)
        elif act == "finish":
            p.program.finish()
            p.returncode = 0
        elif act == "die":
            p.program.advance(1, partial=True)
            p.returncode = 1
        if p.program.done() and p.returncode is None and act in ("frame", "2frames"):
            # the program wrote its last frame: it exits on its own at the next poll or later
            pass

    def killpg(self, pgid, sig):
        for p in self.procs:
            if p.pid == pgid:
                p.kill_()

    def getpgid(self, pid):
        return pid

    def patch(self, module):
        """Rebind subprocess / sleep / os in an engine module's namespace."""
        saved = {}
        world = self
        if hasattr(module, "subprocess"):
            saved["subprocess"] = module.subprocess
            shim = types.SimpleNamespace(**{k: getattr(module.subprocess, k) for k in ("PIPE", "STDOUT", "DEVNULL")})
            shim.Popen = world.Popen
            module.subprocess = shim
        if hasattr(module, "sleep"):
            saved["sleep"] = module.sleep
            module.sleep = world.sleep
        if hasattr(module, "os"):
            saved["os"] = module.os
            real_os = module.os

            class OsProxy:
                def __getattr__(self, name):
                    return getattr(real_os, name)

                killpg = staticmethod(world.killpg)
                getpgid = staticmethod(world.getpgid)
                setsid = staticmethod(lambda: None)

            module.os = OsProxy()
        self._patched = (module, saved)
        return self

    def unpatch(self):
        module, saved = self._patched
        for k, v in saved.items():
            setattr(module, k, v)


# ---------------------------------------------------------------------------
# toy dynamics
# ---------------------------------------------------------------------------


class Flight:
    """Free flight of N atoms: pos_k = pos_0 + k * vel (per MD step);
    box of frame k taken from ``boxes`` cyclically (frame 0 = box of the
    initial configuration)."""

    def __init__(self, pos, vel, box0, boxes=None):
        self.pos0 = np.array(pos, dtype=float)
        self.vel = np.array(vel, dtype=float)
        self.box0 = np.array(box0, dtype=float)
        self.boxes = [np.array(b, dtype=float) for b in (boxes or [])]

    def frame(self, k, subcycles):
        pos = self.pos0 + k * subcycles * self.vel
        box = self.box0 if (k == 0 or not self.boxes) else self.boxes[(k - 1) % len(self.boxes)]
        return pos, self.vel.copy(), box


def parse_lammps_vars(path):
    out = {}
    with open(path) as f:
        for line in f:
            sp = line.split()
            if len(sp) >= 4 and sp[0] == "variable" and sp[2] == "index":
                out[sp[1]] = sp[3]
    return out


class LammpsProgram:
    """Fake LAMMPS: dump custom id type x y z vx vy vz id, every `subcycles` steps."""

    def __init__(self, cmd, cwd, boxes=None, record=None):
        self.cwd = cwd
        inp = cmd[cmd.index("-i") + 1]
        v = parse_lammps_vars(inp)
        self.vars = v
        self.name = v["name"]
        self.subcycles = int(v["subcycles"])
        self.nsteps = int(v["nsteps"])
        self.seed = v.get("seed")
        self.nframes = self.nsteps // self.subcycles + 1
        # read_dump ${initconf}: positions, velocities and box of the start configuration
        from infretis.classes.engines.lammps import read_lammpstrj

        id_type, pos, vel, box = read_lammpstrj(v["initconf"], 0, 2)
        self.id_type = id_type
        self.flight = Flight(pos, vel, box[:, :2], boxes)
        self.traj = os.path.join(cwd, f"{self.name}.lammpstrj")
        self.k = 0
        self.written = []  # (pos, vel, box) per frame written completely
        self.record = record
        # thermo output
        with open(os.path.join(cwd, "log.lammps"), "w") as f:
            f.write("Step KinEng PotEng TotEng Temp\n")
            for s in range(0, self.nsteps + 1, self.subcycles):
                f.write(f"{s} {0.5 + s} {-1.0 - s} {-0.5} 300.0\n")
            f.write("Loop time of 0.1\n")
        if record is not None:
            record.append(self)

    def frame_text(self, k):
        pos, vel, box = self.flight.frame(k, self.subcycles)
        lines = ["ITEM: TIMESTEP\n", f"{k * self.subcycles}\n", "ITEM: NUMBER OF ATOMS\n", f"{len(pos)}\n",
                 "ITEM: BOX BOUNDS pp pp pp\n"]
        for d in range(3):
            lines.append(f"{box[d, 0]:.16e} {box[d, 1]:.16e}\n")
        lines.append("ITEM: ATOMS id type x y z vx vy vz id\n")
        # LAMMPS does not sort atoms: write them in reverse id order
        for a in reversed(range(len(pos))):
            lines.append(f"{a + 1} 1 " + " ".join(f"{x:.10g}" for x in pos[a]) + " " + " ".join(f"{x:.10g}" for x in vel[a]) + f" {a + 1}\n")
        return "".join(lines), (pos, vel, box)

    def done(self):
        return self.k >= self.nframes

    def advance(self, n, partial=False):
        for _ in range(n):
            if self.done():
                return
            txt, fr = self.frame_text(self.k)
            with open(self.traj, "a") as f:
                if partial:
                    f.write(txt[: len(txt) // 2])
                    return
                f.write(txt)
            self.written.append(fr)
            self.k += 1

    def finish(self):
        while not self.done():
            self.advance(1)
