"""Drive the real move functions (shoot / wire_fencing / retis_swap_zero) on the
lattice under the explorer, judging every execution (C09/C11) and returning
the exact outcome distribution (C01a kernels)."""

from __future__ import annotations

from fractions import Fraction

from vf import lattice as lat
from vf import scripted_rng as sr
from vf.explore import INT_CAP, explore
from vf.ref import latticepaths as lp

from infretis.core import tis


def moves_list(B, move_of):
    """shooting_moves list as in the toml: index 0 = [0-], 1 = [0+], ..."""
    return ["sh"] + [move_of.get(i, "sh") for i in range(B)]


def time_ordered(path):
    ts = [getattr(pp, "t", None) for pp in path.phasepoints]
    if None in ts:
        return False
    d = [b - a for a, b in zip(ts[:-1], ts[1:])]
    return all(x == 1 for x in d) or all(x == -1 for x in d)


def velocity_direction_ok(path):
    """Every frame's velocity (stored direction, flipped if vel_rev) points along the path's own time order."""
    ts = [getattr(pp, "t", None) for pp in path.phasepoints]
    if len(ts) < 2 or None in ts:
        return True
    d = 1 if ts[1] > ts[0] else -1
    return all(getattr(pp, "gdt", 1) * (-1 if pp.vel_rev else 1) == d for pp in path.phasepoints)


def judge_accepted(dyn, kind, i, trial, es, old_sites, maxlength, mvlist, cap, clauses, lm1=False):
    """C09 clauses for an accepted path."""
    new = lat.sites(trial)
    if not velocity_direction_ok(trial):
        clauses.append(("velocity-direction", f"accepted path {new}: velocity flags {[bool(p.vel_rev) for p in trial.phasepoints]} do not all point along the "
                        f"path's time order {[getattr(p, 't', None) for p in trial.phasepoints]} (generated {[getattr(p, 'gdt', None) for p in trial.phasepoints]})"))
    if not lp.member(dyn, kind, new, i=i, maxlen=maxlength):
        clauses.append(("not-member", f"accepted path {new} is not a member of its ensemble (kind={kind}, i={i}, maxlength={maxlength})"))
    if not time_ordered(trial):
        clauses.append(("time-order", f"accepted path {new} is not ordered in time: {[getattr(p, 't', None) for p in trial.phasepoints]}"))
    w = tis.calc_cv_vector(trial, lat.interfaces(dyn.B), mvlist, lambda_minus_one=lat.o(lm1), cap=lat.o(cap), minus=(kind == "minus"))
    own = 0 if kind == "minus" else i
    if not w[own] != 0:
        clauses.append(("zero-weight", f"accepted path {new} has zero weight in its own ensemble: {w}"))
    return new


def shoot_fn(dyn, kind, i, old_sites, maxlength, move="sh", cap=None, n_jumps=None,
             allowmaxlength=False, move_of=None, forced_u=None, old_label=None):
    """Returns fn(chooser) executing one real move; the record carries the C09 verdicts."""
    B = dyn.B
    mvlist = moves_list(B, move_of or ({i: move} if kind == "plus" else {}))

    def fn(ch):
        sr.use(ch)
        INT_CAP[0] = maxlength + 1
        rg = sr.make()
        if forced_u is not None:
            sr.force_random(list(forced_u))
        eng = lat.MemLatticeEngine(dyn)
        eng.rgen = sr.make()
        eng.rgen.tag = "eng"
        es = lat.ens_set("minus" if kind == "minus" else ("zero" if i == 0 else "plus"), B, maxlength,
                         move=move, cap=cap, n_jumps=n_jumps, allowmaxlength=allowmaxlength, rgen=rg, i=i)
        # how the old path was produced (the label the code keeps in path.generated): by default the
        # ensemble's own move; old_label = 'wf'/'sh'/'00' models a path that arrived through swaps
        old = lat.mk_path(old_sites, maxlen=maxlength, generated=(old_label or move, 0.0, 0, 0), number=7)
        before = lat.snapshot(old)
        clauses = []
        fnc = tis.shoot if move == "sh" else tis.wire_fencing
        # capture the shooting points the inner shoot() picks
        accept, trial, status = fnc(es, old, eng, start_cond=es["start_cond"])
        rec = dict(accept=bool(accept), status=status, old=tuple(old_sites), new=None,
                   gen=trial.generated, n_prop=eng.n_propagate)
        if bool(accept) != (status == "ACC"):
            clauses.append(("accept-status", f"accept={accept} but status={status}"))
        if accept and trial.status != "ACC":
            clauses.append(("accept-status", f"accepted but trial.status={trial.status}"))
        if accept:
            rec["new"] = judge_accepted(dyn, kind, i, trial, es, old_sites, maxlength, mvlist, cap, clauses)
            if move == "sh":
                _, op, idx_old, idx_new = trial.generated
                new = rec["new"]
                if not (1 <= idx_old <= len(old_sites) - 2):
                    clauses.append(("shoot-endpoint", f"shooting index {idx_old} is an end point of the old path (L={len(old_sites)})"))
                elif not (0 <= idx_new < len(new)) or new[idx_new] != old_sites[idx_old] or \
                        getattr(trial.phasepoints[idx_new], "t", None) != idx_old:
                    clauses.append(("shoot-point-missing", f"shooting point old[{idx_old}] is not at new[{idx_new}] of {new}"))
            rec["weight"] = trial.weight
        else:
            rec["trial"] = lat.sites(trial)
        if lat.snapshot(old) != before:
            clauses.append(("old-modified", "the old path's frames were modified by the move"))
        if move == "sh":
            rec["idx"] = trial.generated[2] if trial.generated else None
        rec["clauses"] = clauses
        sr.force_random(None)
        return rec

    return fn


def kernel(dyn, kind, i, old_sites, maxlength, **kw):
    """Exact outcome distribution of one move from one old path.

    Returns (K: dict new_sites_or_old -> Fraction, records list, n_exec)."""
    fn = shoot_fn(dyn, kind, i, old_sites, maxlength, **kw)
    K = {}
    recs = []
    n = 0
    tot = Fraction(0)
    for ch, rec in explore(fn):
        n += 1
        p = ch.prob()
        tot += p
        tgt = rec["new"] if rec["accept"] else tuple(old_sites)
        K[tgt] = K.get(tgt, Fraction(0)) + p
        rec["p"] = p
        rec["choices"] = ch.choices
        recs.append(rec)
    if tot != 1:
        raise AssertionError(f"probabilities of {n} executions sum to {tot} != 1 (lost branch)")
    return K, recs, n


def ref_shoot_kernel(dyn, kind, i, old, new, maxlength):
    """Reference transition probability old -> new (new != old) for a shooting
    move with the length-based Metropolis rule min(1, n_old/n_new)."""
    n_old, n_new = len(old) - 2, len(new) - 2
    if len(new) > maxlength:
        return Fraction(0)
    acc = min(Fraction(1), Fraction(n_old, n_new))
    tot = Fraction(0)
    for a in range(1, len(old) - 1):
        for b in range(1, len(new) - 1):
            if old[a] != new[b]:
                continue
            g = Fraction(1)
            for k in range(b, 0, -1):  # backward generation new[b] -> new[b-1] ...
                g *= dyn.T(new[k], new[k - 1])
            for k in range(b, len(new) - 1):
                g *= dyn.T(new[k], new[k + 1])
            tot += Fraction(1, n_old) * g * acc
    return tot


# ---------------------------------------------------------------------------
# zero swap
# ---------------------------------------------------------------------------


def swap_fn(dyn, old0, old1, maxlength, move1="sh", cap=None, lm1=False):
    B = dyn.B

    def fn(ch):
        sr.use(ch)
        INT_CAP[0] = maxlength + 1
        rg0 = sr.make()
        rg1 = sr.make()
        eng0 = lat.MemLatticeEngine(dyn)
        eng1 = lat.MemLatticeEngine(dyn)
        eng0.rgen = sr.make()
        eng1.rgen = sr.make()
        es0 = lat.ens_set("minus", B, maxlength, move="sh", cap=cap, rgen=rg0, lambda_minus_one=lm1)
        es1 = lat.ens_set("zero", B, maxlength, move=move1, cap=cap, rgen=rg1, i=0, lambda_minus_one=lm1)
        es1["tis_set"] = es0["tis_set"]  # one shared tis_set as in initiate_ensembles
        p0 = lat.mk_path(old0, maxlen=maxlength, number=3, tag="old0")
        p1 = lat.mk_path(old1, maxlen=maxlength, number=4, tag="old1")
        b0, b1 = lat.snapshot(p0), lat.snapshot(p1)
        picked = {-1: {"ens": es0, "traj": p0}, 0: {"ens": es1, "traj": p1}}
        accept, (n0, n1), status = tis.retis_swap_zero(picked, {-1: [eng0], 0: [eng1]})
        clauses = []
        rec = dict(accept=bool(accept), status=status, old=(tuple(old0), tuple(old1)),
                   n_prop=eng0.n_propagate + eng1.n_propagate)
        if bool(accept) != (status == "ACC"):
            clauses.append(("accept-status", f"accept={accept} but status={status}"))
        if accept:
            mv = ["sh", move1] + ["sh"] * (B - 1)
            s0 = judge_accepted(dyn, "minus", 0, n0, es0, old0, maxlength, mv, cap, clauses, lm1=lm1)
            s1 = judge_accepted(dyn, "plus", 0, n1, es1, old1, maxlength, mv, cap, clauses, lm1=lm1)
            rec["new"] = (s0, s1)
            # junction identity (C11): by site and by hidden identity (time stamp + origin tag)
            def ident(pp):
                return (lat.site_of(pp.order[0]), getattr(pp, "t", None))
            if [ident(x) for x in n0.phasepoints[-2:]] != [ident(x) for x in p1.phasepoints[:2]]:
                clauses.append(("junction-minus", f"new [0-] {s0} does not end with the first two frames of old [0+] {old1}"))
            if [ident(x) for x in n1.phasepoints[:2]] != [ident(x) for x in p0.phasepoints[-2:]]:
                clauses.append(("junction-plus", f"new [0+] {s1} does not start with the last two frames of old [0-] {old0}"))
            rec["weights"] = (n0.weight, n1.weight)
        else:
            rec["new"] = None
        if lat.snapshot(p0) != b0 or lat.snapshot(p1) != b1:
            clauses.append(("old-modified", "an old path's frames were modified by the swap"))
        rec["clauses"] = clauses
        return rec

    return fn


def swap_kernel(dyn, old0, old1, maxlength, **kw):
    fn = swap_fn(dyn, old0, old1, maxlength, **kw)
    K = {}
    recs = []
    tot = Fraction(0)
    for ch, rec in explore(fn):
        p = ch.prob()
        tot += p
        tgt = rec["new"] if rec["accept"] else (tuple(old0), tuple(old1))
        K[tgt] = K.get(tgt, Fraction(0)) + p
        rec["p"] = p
        rec["choices"] = ch.choices
        recs.append(rec)
    if tot != 1:
        raise AssertionError(f"swap probabilities sum to {tot}")
    return K, recs, len(recs)
