"""FaultFS: interpose on the file-system effects of the main process and crash
after effect k (optionally half-way through a write).

Effects = open-for-write (truncate/create), write, move/rename/replace, remove,
rmdir, mkdir/makedirs whose target lies under the run directory and is one of
restart.toml*, infretis_data*, load/**.  Everything else passes through.
A crash raises SimulatedCrash (a BaseException) and FREEZES the file system:
later effects, including those issued by with/finally clean-up, are dropped —
what kill -9 does to a process whose writes are unbuffered.  (The wrapper
flushes after every write, so nothing is pending at the crash.)
"""

from __future__ import annotations

import builtins
import os
import re
import shutil
import sys


class SimulatedCrash(BaseException):
    pass


class _State:
    def __init__(self):
        self.active = False
        self.root = None
        self.count = 0
        self.log = []
        self.crash_at = None
        self.torn = None
        self.frozen = False
        self.depth = 0
        self.buffered = False
        self.realkill = False
        self.tmp_reads = 0


S = _State()
_orig = {}


def _rel(path):
    try:
        p = os.path.abspath(path)
    except Exception:  # noqa: BLE001
        return None
    root = S.root
    if root is None or not p.startswith(root + os.sep):
        return None
    r = os.path.relpath(p, root)
    if r.startswith("restart.toml") or r.startswith("infretis_data") or r == "load" or r.startswith("load" + os.sep):
        return r
    return None


def _norm(rel):
    return re.sub(r"\d+", "<n>", rel)


def _site():
    f = sys._getframe(3)
    for _ in range(12):
        if f is None:
            break
        fn = f.f_code.co_filename
        if "/infretis/" in fn:
            return f"{os.path.basename(fn)}:{f.f_code.co_name}"
        f = f.f_back
    return "?"


def _effect(kind, rel, nbytes=None):
    """Register one effect.  Returns 'apply', 'drop' or ('torn', b)."""
    if S.frozen:
        return "drop"
    k = S.count
    S.count += 1
    label = (kind, _norm(rel), _site())
    S.log.append(label)
    if S.realkill:
        if S.crash_at is not None and k == S.crash_at:
            os._exit(77)  # the process really dies: user-space buffers are lost, nothing is cleaned up
        return "apply"
    if S.crash_at is not None and k == S.crash_at:
        S.frozen = True
        S.crash_label = label
        if kind in ("write", "flush") and S.torn is not None and nbytes:
            b = {"1": 1, "3": 3, "len-1": max(0, nbytes - 1), "half": nbytes // 2}.get(S.torn, 0)
            return ("torn", min(b, nbytes))
        return "crash"
    return "apply"


class FaultFile:
    """Unbuffered model: every write() call reaches the disk at once (one effect each).
    Buffered model (S.buffered): data reaches the disk only at flush()/close() or when
    8 KiB have accumulated, as with CPython's default buffering; a crash loses what is
    pending, and other effects (rename, remove, ...) can overtake it."""

    BUFSIZE = 8192

    def __init__(self, real, rel):
        self._f = real
        self._rel = rel
        self._pending = None

    def _flush_pending(self):
        if not self._pending:
            return
        data = self._pending[0][:0].join(self._pending)
        self._pending = []
        r = _effect("flush", self._rel, len(data))
        if r == "drop":
            return
        if r == "apply":
            self._f.write(data)
            self._f.flush()
            return
        if isinstance(r, tuple):
            self._f.write(data[: r[1]])
            self._f.flush()
        raise SimulatedCrash()

    def write(self, data):
        if S.buffered:
            if S.frozen:
                return len(data)
            if self._pending is None:
                self._pending = []
            self._pending.append(data)
            if sum(len(x) for x in self._pending) >= self.BUFSIZE:
                self._flush_pending()
            return len(data)
        r = _effect("write", self._rel, len(data))
        if r == "drop":
            return len(data)
        if r == "apply":
            n = self._f.write(data)
            self._f.flush()
            return n
        if isinstance(r, tuple):
            self._f.write(data[: r[1]])
            self._f.flush()
        raise SimulatedCrash()

    def writelines(self, lines):
        for ln in lines:
            self.write(ln)

    def flush(self):
        if S.buffered:
            self._flush_pending()
        if not S.frozen:
            self._f.flush()

    def close(self):
        if S.buffered and not S.frozen:
            self._flush_pending()
        try:
            self._f.close()
        except Exception:  # noqa: BLE001
            pass

    def __enter__(self):
        return self

    def __exit__(self, *a):
        self.close()
        return False

    def __getattr__(self, name):
        return getattr(self._f, name)


class RealFile:
    """Conformance mode (S.realkill): the real CPython file object with its real buffering; only
    flush() and close() are kill points (a write() by itself changes nothing on disk that a kill
    at the neighbouring points would not show, as long as the buffer does not overflow)."""

    def __init__(self, real, rel):
        self._f = real
        self._rel = rel

    def write(self, data):
        return self._f.write(data)

    def writelines(self, lines):
        return self._f.writelines(lines)

    def flush(self):
        _effect("flush", self._rel)
        return self._f.flush()

    def close(self):
        if not self._f.closed:
            _effect("flush", self._rel)
        return self._f.close()

    def __enter__(self):
        return self

    def __exit__(self, *a):
        self.close()
        return False

    def __getattr__(self, name):
        return getattr(self._f, name)


def _open(file, mode="r", *a, **k):
    if S.active and S.depth == 0 and isinstance(file, (str, os.PathLike)) and any(c in mode for c in "wax+"):
        rel = _rel(file)
        if rel is not None:
            if S.frozen:
                # process is dead: hand out a sink
                return FaultFile(_orig["open"](os.devnull, "wb" if "b" in mode else "w"), rel)
            creates = "w" in mode or "x" in mode or not os.path.exists(file)
            if creates:
                r = _effect("open-for-write", rel)
                if r == "crash":
                    raise SimulatedCrash()
                if r == "drop":
                    return FaultFile(_orig["open"](os.devnull, "wb" if "b" in mode else "w"), rel)
            real = _orig["open"](file, mode, *a, **k)
            if S.realkill:
                return RealFile(real, rel)
            return FaultFile(real, rel)
    if S.active and isinstance(file, (str, os.PathLike)) and str(file).endswith(".tmp"):
        S.tmp_reads += 1  # somebody reads a temporary file: trees that differ in it are not equivalent
    return _orig["open"](file, mode, *a, **k)


def _wrap(name, kind, target_arg=0):
    orig = _orig[name]

    def f(*a, **k):
        if not S.active or S.depth > 0:
            return orig(*a, **k)
        rel = _rel(a[target_arg]) if len(a) > target_arg else None
        if rel is None and target_arg == 1:
            rel = _rel(a[0])
        if rel is None:
            return orig(*a, **k)
        r = _effect(kind, rel)
        if r == "drop":
            return None
        if r == "crash":
            raise SimulatedCrash()
        S.depth += 1
        try:
            return orig(*a, **k)
        finally:
            S.depth -= 1

    return f


def install():
    if _orig:
        return
    _orig["open"] = builtins.open
    builtins.open = _open
    for name, kind, arg in (("remove", "remove", 0), ("unlink", "remove", 0), ("rmdir", "rmdir", 0),
                            ("mkdir", "mkdir", 0),  # os.makedirs calls os.mkdir once per level
                            ("rename", "move", 1), ("replace", "move", 1)):
        _orig[name] = getattr(os, name)
        setattr(os, name, _wrap(name, kind, arg))
    _orig["move"] = shutil.move
    shutil.move = _wrap("move", "move", 1)
    _orig["copyfile"] = shutil.copyfile
    shutil.copyfile = _wrap("copyfile", "move", 1)


def uninstall():
    if not _orig:
        return
    builtins.open = _orig.pop("open")
    shutil.move = _orig.pop("move")
    shutil.copyfile = _orig.pop("copyfile")
    for name in list(_orig):
        setattr(os, name, _orig.pop(name))


class section:
    """with faultfs.section(root, crash_at=k, torn=None): ... ; effects counted in .log"""

    def __init__(self, root, crash_at=None, torn=None, buffered=False, realkill=False):
        self.realkill = realkill
        self.root = os.path.abspath(root)
        self.crash_at = crash_at
        self.torn = torn
        self.buffered = buffered

    def __enter__(self):
        install()
        S.active = True
        S.root = self.root
        S.count = 0
        S.log = []
        S.crash_at = self.crash_at
        S.torn = self.torn
        S.buffered = self.buffered
        S.realkill = self.realkill
        S.tmp_reads = 0
        S.frozen = False
        S.depth = 0
        S.crash_label = None
        return S

    def __exit__(self, et, ev, tb):
        S.active = False
        S.frozen = False
        S.crash_at = None
        S.realkill = False
        return False
