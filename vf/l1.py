"""L1 harness: the real REPEX_state (initiate / prep_md_items / pick /
pick_lock / treat_output / loop / write_toml / load_paths, real assign_engines)
driven exactly as scheduler() drives it, with the MD move replaced by an
abstract outcome chosen by the explorer.

Choice points of one run: every outcome of the real pick (path x ensemble with
its probability, zero-swap coin, partner), which in-flight job completes, and
the job's outcome (rejected, or accepted with a path from a per-ensemble
alphabet of real lattice paths whose weights come from the real
calc_cv_vector).  States are compared by ``canon``; exploration is breadth-first
by number of completed jobs, each state rebuilt by replaying its choice history
on a fresh REPEX_state (live objects hold files / generators and cannot be
copied).
"""

from __future__ import annotations

import copy
import os
import pickle
import shutil

import numpy as np

from vf import lattice as lat
from vf import scenario, scratch
from vf import scripted_rng as sr
from vf.explore import Chooser, Pruned, ReplayError, explore

from infretis.core import tis


class Spec:
    def __init__(self, B=3, workers=1, moves=None, cap=None, maxlength=12, alphabet="sh",
                 engine_layout="single", seed=0, steps=10**6, scripted=True, real_store=False,
                 n_jumps=None, restart_at=None, delete_old=False, extra=None, rich=False, labels=None, restarts=False):
        self.B = B
        self.workers = workers
        self.moves = moves or ["sh"] * B
        self.cap = cap
        self.maxlength = maxlength
        self.alphabet = alphabet
        self.engine_layout = engine_layout
        self.seed = seed
        self.steps = steps
        self.scripted = scripted
        self.real_store = real_store
        self.n_jumps = n_jumps
        self.delete_old = delete_old
        self.extra = extra or {}  # further scenario.build keywords (lambda_minus_one, quantis, ...)
        self.rich = rich  # accepted paths span two trajectory files, reversed frames, energies, aux files
        # path numbers are labels: start the closure from a state of a long-running simulation
        # (adversarial labels such as 1, 10, 11, 100 — one a substring/prefix of another)
        self.labels = labels
        # the closure also contains 'the main process is killed here and restarted from its files'
        self.restarts = restarts

    def key(self):
        return (self.B, self.workers, tuple(self.moves), self.cap, self.maxlength, self.alphabet,
                self.engine_layout, self.seed, repr(sorted(self.extra.items())), self.delete_old,
                tuple(self.labels) if self.labels else None, self.restarts)

    def __repr__(self):
        return (f"Spec(B={self.B}, W={self.workers}, moves={self.moves}, cap={self.cap}, "
                f"layout={self.engine_layout}, alphabet={self.alphabet})")


def path_alphabet(spec):
    """Accepted-path alphabet per ensemble number (-1, 0, 1, ...): real lattice
    paths, one or two per reachable maximum site."""
    B = spec.B
    alph = {-1: [(1, 0, 1), (1, 0, 0, 1)]}
    for i in range(B - 1):
        paths = []
        for m in range(i + 1, B + 1):
            if m == B:
                paths.append(tuple(range(0, B + 1)))
            else:
                up = list(range(0, m + 1))
                paths.append(tuple(up + up[-2::-1]))
                if spec.alphabet == "ha" and m >= 2:
                    # a longer variant with a different number of frames in the wf region
                    paths.append(tuple(up + [m - 1, m] + up[-2::-1]))
        alph[i] = paths
    return alph


def _scripted_default_rng(seed=None):
    """default_rng replacement for infretis.classes.repex: same bit generator and
    seed sequence as the real one, but draws are explorer choice points."""
    g = np.random.default_rng(seed)
    out = sr.ScriptedGenerator(g.bit_generator)
    out.tag = "pick"
    return out


def activate(scripted):
    from infretis.classes import repex

    repex.default_rng = _scripted_default_rng if scripted else np.random.default_rng


def deactivate():
    activate(False)


def stream_key(g):
    ss = g.bit_generator._seed_seq
    st = g.bit_generator.state["state"]
    return (int(ss.entropy) if ss.entropy is not None else None, tuple(int(x) for x in ss.spawn_key),
            f"{st['state']:x}-{st['inc']:x}")


def _same_draw(c, w0):
    """The restored generator state yields the same uniform number as before the kill: the draw
    lands in the same cell of the cumulative distribution.  If the restarted program presents the
    same probabilities the answer is the same index; if it presents different ones, every index
    whose cell overlaps the old cell is possible (for some seed) and all of them are explored."""
    if w0 is None:
        return c

    def answer(n, weights):
        if weights is None or n != len(w0):
            return c
        w1 = [float(x) for x in weights]
        if w1 == w0:
            return c
        s0, s1 = sum(w0), sum(w1)
        lo, hi = sum(w0[:c]) / s0, sum(w0[: c + 1]) / s0
        out = []
        a = 0.0
        for i, x in enumerate(w1):
            b = a + x / s1
            if x > 0 and min(hi, b) - max(lo, a) > 1e-9:
                out.append(i)
            a = b
        return out or c

    return answer


class StubStore:
    """PathStorage.output replaced by the identity (L1 has no trajectory files)."""

    keep_traj_fnames = []

    def output(self, step, data):
        return data["path"].copy()


class L1Run:
    def __init__(self, spec, chooser, workdir, observers=()):
        self.spec = spec
        self.ch = chooser
        self.dir = workdir
        self.obs = list(observers)
        self.inflight = []
        self.events = 0
        self.issued = []  # every job ever issued (observation records)
        self.alph = path_alphabet(spec)
        self.accepted_counter = 0
        self.pick_answers = []  # answers of the scheduler's random draws since the last restart-file write
        self.restart_text = None
        self.last_draws = []
        self._setup()

    # ------------------------------------------------------------------
    def _setup(self):
        from infretis.setup import setup_config, setup_internal

        spec = self.spec
        tpl = _template(spec)
        # fresh run dir = copy of the template (cheap, tmpfs)
        if os.path.isdir(self.dir):
            shutil.rmtree(self.dir)
        shutil.copytree(tpl, self.dir)
        scenario.reset_globals()
        os.chdir(self.dir)
        sr.use(self.ch)
        activate(spec.scripted)
        config = setup_config("infretis.toml")
        self.md_items, self.state = setup_internal(config)
        st = self.state
        self.restarts = 0
        if not spec.real_store:
            st.pstore = StubStore()
        # REPEX_state.traj_data is a class-level dict mutated in place; bind it to the
        # instance so that snapshots (deepcopy) do not share it (one instance per
        # process in production, so this changes nothing observable)
        st.traj_data = st.traj_data
        if spec.labels:
            self._relabel(spec.labels)
        for o in self.obs:
            o.on_setup(self)

    def _relabel(self, labels):
        """Give the initial live paths the numbers a long-running simulation would have
        (only possible without trajectory files on disk)."""
        st = self.state
        assert not self.spec.real_store
        old = st.live_paths()
        m = dict(zip(old, labels))
        for t in st._trajs[:-1]:
            t.path_number = m[t.path_number]
        st.traj_data = {m[k]: v for k, v in st.traj_data.items()}
        st.config["current"]["active"] = [m[k] for k in st.config["current"]["active"]]
        st.config["current"]["traj_num"] = max(labels) + 1
        st._last_prob = None

    def clone(self, chooser):
        """Snapshot of the live run (state, in-flight jobs, observers) bound to a new chooser."""
        new = copy.copy(self)
        (new.state, new.inflight, new.md_items, new.issued, new.obs) = copy.deepcopy(
            (self.state, self.inflight, self.md_items, self.issued, self.obs))
        new.ch = chooser
        new.pick_answers = list(self.pick_answers)
        sr.use(chooser)
        activate(self.spec.scripted)
        if self.spec.scripted:
            # deepcopy turns the scripted generator into a plain one: re-bind
            # (note: deepcopy also resets the seed sequence's spawn counter, so
            # snapshots must not be used where stream identities matter: C07
            # explores by replay from scratch)
            new.state.rgen = sr.ScriptedGenerator(new.state.rgen.bit_generator)
            new.state.rgen.tag = "pick"
        os.chdir(self.dir)
        return new

    def restart(self, steps=None, workers=None):
        """The main process dies (in-flight jobs are lost) and the program is
        started again from the files on disk.  ``steps`` / ``workers``: the user edits
        these two keys of restart.toml before restarting (the documented way to extend a run)."""
        from infretis.setup import setup_config, setup_internal

        scenario.reset_globals()
        os.chdir(self.dir)
        activate(self.spec.scripted)
        undo = None
        if not self.spec.real_store:
            undo = self._prepare_inmem_restart()
        toml = "restart.toml" if os.path.isfile("restart.toml") else "infretis.toml"
        if steps is not None or workers is not None:
            import tomli
            import tomli_w

            with open(toml, "rb") as f:
                cfg = tomli.load(f)
            if steps is not None:
                cfg["simulation"]["steps"] = int(steps)
            if workers is not None:
                cfg["runner"]["workers"] = int(workers)
            with open(toml, "wb") as f:
                tomli_w.dump(cfg, f)
            if not self.spec.real_store:
                # the edited file is what is on disk until the restarted run completes a step
                with open(toml, "rb") as f:
                    self.restart_text = f.read()
        try:
            config = setup_config(toml)
            if config is None:
                raise Violation("restart:setup_config-none", f"setup_config({toml}) refused to restart")
            self.md_items, self.state = setup_internal(config)
        finally:
            if undo:
                undo()
        if not self.spec.real_store:
            self.state.pstore = StubStore()
        self.state.traj_data = self.state.traj_data
        self.lost = list(self.inflight)
        self.inflight = []
        self.restarts += 1
        for o in self.obs:
            o.on_restart(self)
        # the generator state is restored from the file, so the draws made since that
        # file was written are answered exactly as before (they are not free choices)
        answers = list(self.pick_answers)
        self.pick_answers = []
        self.ch.forced = [("pick", _same_draw(c, w0)) for lab, c, w0 in answers]
        self.start()
        self.ch.forced = []
        self.pick_answers = answers  # restart.toml unchanged: a further restart replays them again

    def _prepare_inmem_restart(self):
        """Without trajectory files (StubStore) the restart reads this state's own restart file and the
        real setup code runs unchanged except that load_paths_from_disk hands back copies of the paths
        that were live in memory (looked up by the numbers the restart file names)."""
        import infretis.setup as isetup

        if self.restart_text is None:
            raise RuntimeError("in-memory restart before the first restart file was written")
        with open("restart.toml", "wb") as f:
            f.write(self.restart_text)
        by_num = {t.path_number: t for t in self.state._trajs[:-1]}
        for pn in by_num:
            d = os.path.join("load", str(pn))
            os.makedirs(d, exist_ok=True)
            t = os.path.join(d, "traj.txt")
            if not os.path.isfile(t):
                open(t, "w").close()
        orig = isetup.load_paths_from_disk

        def from_memory(config):
            out = []
            for pn in config["current"]["active"]:
                if pn not in by_num:
                    raise Violation("restart:names-a-path-that-is-not-live", f"restart file names path {pn}, live are {sorted(by_num)}")
                q = by_num[pn].copy()
                q.path_number = pn
                q.generated = ("re", float("nan"), 0, 0)
                q.maxlen = config["simulation"]["tis_set"]["maxlength"]
                out.append(q)
            return out

        isetup.load_paths_from_disk = from_memory

        def undo():
            isetup.load_paths_from_disk = orig

        return undo

    # ------------------------------------------------------------------
    def start(self):
        st = self.state
        while st.initiate():
            md = copy.deepcopy(self.md_items)
            before = self._pre_pick()
            n0 = len(self.ch.trace)
            md = st.prep_md_items(md)
            self._note_pick(n0)
            self._issued(md, before)
            self.inflight.append(md)
        for o in self.obs:
            o.on_state(self)

    def _note_pick(self, n0):
        """Remember how the scheduler's own draws were answered: after a restart the
        restored generator state must give the same answers."""
        self.last_draws = []  # the scheduler's fresh draws of this pick: (label, answer, weights)
        for c, n, lab, w in self.ch.trace[n0:]:
            if lab.startswith("pick"):
                if lab.endswith("!"):
                    continue
                self.pick_answers.append((lab, c, None if w is None else [float(x) for x in w]))
                self.last_draws.append((lab, c, None if w is None else [float(x) for x in w]))

    def _pre_pick(self):
        st = self.state
        return dict(locks=st._locks.copy(), W=st.state.copy(), prob=np.array(st.prob, dtype=float),
                    trajs=list(st._trajs))

    def _issued(self, md, before):
        rec = dict(pin=md["pin"], ens=tuple(md["ens_nums"]), pn=tuple(md["pnum_old"]),
                   w_folder=md.get("w_folder"), eng={e: dict(md["picked"][e]["eng_idx"]) for e in md["ens_nums"]},
                   ordinal=len(self.issued), restarts=self.restarts, cstep=self.state.cstep,
                   streams={e: (stream_key(md["picked"][e]["ens"]["rgen"]), stream_key(md["picked"][e]["rgen-eng"]))
                            for e in md["ens_nums"]},
                   scheduler=stream_key(self.state.rgen))
        self.issued.append(rec)
        for o in self.obs:
            o.on_pick(self, md, before, rec)

    def outcomes(self, md):
        ens = tuple(md["ens_nums"])
        outs = [("REJ",)]
        if self.spec.alphabet == "min":
            if len(ens) == 1:
                return outs + [("ACC", self.alph[ens[0]][0])]
            return outs + [("ACC", self.alph[-1][0], self.alph[0][0])]
        if len(ens) == 1:
            for p in self.alph[ens[0]]:
                outs.append(("ACC", p))
        else:
            for p0 in self.alph[-1]:
                for p1 in self.alph[0]:
                    outs.append(("ACC", p0, p1))
        return outs

    def abstract_run_md(self, md, outcome):
        """What run_md does to md_items, with the move's result dictated."""
        md = pickle.loads(pickle.dumps(md))  # process boundary
        md["wmd_start"] = 0.0
        picked = md["picked"]
        status = "ACC" if outcome[0] == "ACC" else "FTL"
        for k, ens_num in enumerate(picked.keys()):
            old = picked[ens_num]["traj"]
            if status == "ACC":
                self.accepted_counter += 1
                tag = f"acc{self.accepted_counter}"
                if self.spec.real_store:
                    # the trajectory file an engine would have left in the worker folder
                    from infretis.classes.engines.engineparts import write_xyz_trajectory

                    base = os.path.join(md["w_folder"], f"{tag}_e{ens_num + 1}")
                    tag = base + ".xyz"
                    sites_ = outcome[1 + k]
                    cut = len(sites_) // 2 if self.spec.rich else len(sites_)
                    box = np.array([100.0, 100.0, 100.0])
                    # forward part in <base>.xyz; (rich) backward part in <base>_B.xyz, stored in
                    # propagation order (i.e. reversed in time) with vel_rev = True, as shooting does
                    for i, x in enumerate(sites_[cut:] if self.spec.rich else sites_):
                        write_xyz_trajectory(tag, np.array([[float(x), 0.0, 0.0]]), np.zeros((1, 3)), ["X"], box, step=i)
                    aba = False
                    if self.spec.rich:
                        for i, x in enumerate(reversed(sites_[:cut])):
                            write_xyz_trajectory(base + "_B.xyz", np.array([[float(x), 0.0, 0.0]]), np.zeros((1, 3)),
                                                 ["X"], box, step=i)
                        # every second accepted path comes back to its first file for its last frame
                        # (file order B..B A..A B): nothing says that a path's files form contiguous blocks
                        aba = self.accepted_counter % 2 == 0 and len(sites_) - cut >= 2 and cut >= 1
                        if aba:
                            write_xyz_trajectory(base + "_B.xyz", np.array([[float(sites_[-1]), 0.0, 0.0]]), np.zeros((1, 3)),
                                                 ["X"], box, step=cut)
                        for ext in self.state.pstore.keep_traj_fnames if hasattr(self.state.pstore, "keep_traj_fnames") else []:
                            with open(base + ext, "w") as fh:
                                fh.write(f"aux data of {tag}\n")
                trial = lat.mk_path(outcome[1 + k], maxlen=self.spec.maxlength,
                                    generated=("sh", 0.0, 1, 1), tag=tag)
                if self.spec.real_store and self.spec.rich:
                    for i, pp in enumerate(trial.phasepoints):
                        if i < cut:
                            pp.config = (base + "_B.xyz", cut - 1 - i)
                            pp.vel_rev = True
                        elif aba and i == len(trial.phasepoints) - 1:
                            pp.config = (base + "_B.xyz", cut)
                        else:
                            pp.config = (tag, i - cut)
                        # energies on every frame (counter % 3 == 1), on some frames only (== 2: none on the
                        # first frame and on every third one), or on none (== 0)
                        if self.accepted_counter % 3 == 1 or (self.accepted_counter % 3 == 2 and i % 3 != 0):
                            pp.vpot, pp.ekin = float(pp.order[0]) + 0.125 + 0.5 * i, 0.5 + 0.25 * i
                            # energies of exactly zero are energies (a frame at rest, the zero of the potential)
                            if i % 4 == 1:
                                pp.vpot = 0.0
                            if i % 4 == 2:
                                pp.ekin = 0.0
                trial.status = "ACC"
            else:
                trial = old
            md["moves"].append(md["mc_moves"][ens_num + 1])
            md["trial_len"].append(trial.length)
            md["trial_op"].append((trial.ordermin[0], trial.ordermax[0]))
            md["generated"].append(trial.generated)
            if status == "ACC":
                trial.weights = tis.calc_cv_vector(
                    trial, md["interfaces"], md["mc_moves"],
                    picked[ens_num]["ens"]["tis_set"]["lambda_minus_one"],
                    cap=md["cap"], minus=ens_num < 0)
                picked[ens_num]["traj"] = trial
        md.update({"status": status, "wmd_end": 0.0})
        return pickle.loads(pickle.dumps(md))

    def event(self):
        """One iteration of scheduler()'s main loop."""
        st = self.state
        if not st.loop():
            if not self.spec.real_store and os.path.isfile("restart.toml"):
                with open("restart.toml", "rb") as f:
                    self.restart_text = f.read()
            return False
        j = self.ch.choose(len(self.inflight), "complete")
        md = self.inflight.pop(j)
        outs = self.outcomes(md)
        o = self.ch.choose(len(outs), "outcome")
        md = self.abstract_run_md(md, outs[o])
        before = dict(frac={k: np.array(v["frac"], dtype=np.longdouble) for k, v in st.traj_data.items()},
                      locks=st._locks.copy(), live=list(st.live_paths()), traj_num=st.config["current"]["traj_num"],
                      data_size=os.path.getsize(st.data_file) if os.path.isfile(st.data_file) else 0)
        md = st.treat_output(md)
        self.pick_answers = []  # restart.toml now holds the generator state after these draws
        if not self.spec.real_store:
            # snapshots share the run directory: keep this state's own restart file
            with open("restart.toml", "rb") as f:
                self.restart_text = f.read()
        self.events += 1
        for ob in self.obs:
            ob.on_treat(self, md, before, outs[o])
        if st.cstep + st.workers <= st.tsteps:
            pre = self._pre_pick()
            n0 = len(self.ch.trace)
            md = st.prep_md_items(md)
            self._note_pick(n0)
            self._issued(md, pre)
            self.inflight.append(md)
        for ob in self.obs:
            ob.on_state(self)
        return True

    # ------------------------------------------------------------------
    # transitions of the closure beyond 'one scheduler iteration'
    def remaining(self):
        """Steps left beyond the jobs in flight (0 = the run is draining), capped."""
        st = self.state
        return max(-1, min(st.tsteps - st.cstep - len(self.inflight), 1))

    def enabled_ops(self):
        st = self.state
        W = st.workers
        if st.cstep >= st.tsteps:
            if self.restart_text is None:
                return []
            # the finished run is extended: without limit, or by 1..W steps
            return ["x"] + [chr(ord("A") + j - 1) for j in range(1, W + 1)]
        ops = ["e"]
        if self.restart_text is not None:
            ops.append("r")
            if self.remaining() > 0:
                ops += [str(j) for j in range(1, W)]
        if self.remaining() > 0 and len(self.inflight) == W:
            ops.append("d")
        return ops

    def apply(self, op):
        st = self.state
        if op == "e":
            self.event()
        elif op == "r":
            self.restart()
        elif op == "d":
            # the configured number of steps is such that the jobs now in flight are the last ones
            st.config["simulation"]["steps"] = st.cstep + len(self.inflight)
        elif op == "x" or "A" <= op <= "Z":
            # the finished run is extended (the documented way: raise 'steps' in restart.toml)
            if self.event():
                raise RuntimeError("extend: run not finished")
            self.restart(steps=10**6 if op == "x" else st.cstep + 1 + ord(op) - ord("A"))
        else:
            # killed, then restarted with a budget of int(op) more steps
            self.restart(steps=st.cstep + int(op))

    def canon(self):
        st = self.state
        live = st.live_paths()
        rows = tuple(tuple(float(x) for x in st.state[k]) for k in range(st.n))
        locks = tuple(int(x) for x in st._locks)
        jobs = []
        for md in self.inflight:
            slots = tuple(live.index(pn) if pn in live else -1 for pn in md["pnum_old"])
            eng = tuple(sorted((e, tuple(sorted(md["picked"][e]["eng_idx"].items()))) for e in md["ens_nums"]))
            jobs.append((md["pin"], tuple(md["ens_nums"]), slots, eng))
        occ = tuple(sorted((k, tuple(v)) for k, v in st.engine_occ.items()))
        locked = tuple(sorted((tuple(l[0]), tuple(live.index(int(p)) if int(p) in live else -1 for p in l[1]))
                              for l in st.locked))
        return (rows, locks, tuple(sorted(jobs)), occ, locked, st.toinitiate, self.remaining())


class Observer:
    def on_setup(self, run):
        pass

    def on_restart(self, run):
        pass

    def on_pick(self, run, md, before, rec):
        pass

    def on_treat(self, run, md, before, outcome):
        pass

    def on_state(self, run):
        pass


_TEMPLATES = {}


def _template(spec):
    k = (os.getpid(),) + spec.key()
    if k not in _TEMPLATES:
        d = scratch.mkdtemp("l1tpl")
        extra = {}
        kw = dict(B=spec.B, workers=spec.workers, moves=spec.moves, cap=spec.cap, steps=spec.steps,
                  seed=spec.seed, maxlength=spec.maxlength, screen=0, n_jumps=spec.n_jumps,
                  delete_old=spec.delete_old)
        if spec.engine_layout == "engine0":
            # the QuanTIS layout: [0-] runs on its own engine type
            eng0 = dict(scenario.toml_dict(B=spec.B)["engine"])
            kw["extra_engines"] = {"engine0": eng0}
            kw["ensemble_engines"] = [["engine0"]] + [["engine"]] * (spec.B - 1)
        if spec.engine_layout == "multi":
            # [0-] on its own engine type and one ensemble that lists two engine types (multi-engine ensemble)
            eng = dict(scenario.toml_dict(B=spec.B)["engine"])
            kw["extra_engines"] = {"engine0": dict(eng), "engine1": dict(eng)}
            kw["ensemble_engines"] = [["engine0"], ["engine"], ["engine", "engine1"]] + [["engine"]] * (spec.B - 3)
        kw.update(spec.extra)
        scenario.build(d, **kw)
        _TEMPLATES[k] = d
    return _TEMPLATES[k]


# ---------------------------------------------------------------------------
# breadth-first closure by number of completed jobs
# ---------------------------------------------------------------------------


class Violation(Exception):
    def __init__(self, sig, msg):
        super().__init__(msg)
        self.sig = sig
        self.msg = msg


def run_history(spec, choices, n_events, observers, workdir, ops=None):
    """Replay ``choices`` then continue with default choices up to n_events transitions
    (``ops``: one letter per transition, 'e' = scheduler iteration, 'r' = kill + restart)."""
    ch = Chooser(choices)
    run = L1Run(spec, ch, workdir, observers)
    run.start()
    for op in (ops or "e" * n_events):
        run.apply(op)
    return run, ch


_LEVEL = {}


def _expand_one(idx):
    """All successors of frontier state idx (runs in a forked worker)."""
    snap, hist, _ops = _LEVEL["frontier"][idx]
    wd = _LEVEL["workdir"] + f"-w{os.getpid()}"
    if not os.path.isdir(wd):
        shutil.copytree(snap.dir, wd)
    out = []

    for op in (snap.enabled_ops() if snap.spec.restarts else ["e"]):
        def fn(ch, op=op):
            run = snap.clone(ch)
            os.chdir(wd)
            run.dir = wd
            run.apply(op)
            return run

        for ch, res in explore(_guard(fn)):
            if isinstance(res, Violation):
                out.append(("viol", (res.sig, res.msg), ch.choices, op))
            else:
                out.append(("ok", res.canon(), ch.choices, op))
    return idx, out


def _expand_level(frontier, procs):
    import multiprocessing as mp

    _LEVEL["frontier"] = frontier
    idxs = list(range(len(frontier)))
    if procs <= 1 or len(frontier) < 4:
        _LEVEL["workdir"] = frontier[0][0].dir
        return [_expand_one(i) for i in idxs]
    _LEVEL["workdir"] = frontier[0][0].dir
    with mp.get_context("fork").Pool(procs) as pool:
        res = pool.map(_expand_one, idxs, chunksize=max(1, len(idxs) // (procs * 4)))
    for d in set(os.listdir(os.path.dirname(_LEVEL["workdir"]))):
        if "-w" in d:
            shutil.rmtree(os.path.join(os.path.dirname(_LEVEL["workdir"]), d), ignore_errors=True)
    return res


def bfs(spec, make_observers, max_depth=None, max_states=None, workdir=None, on_transition=None,
        validate_every=50, procs=1):
    """Closure over canonical states, breadth-first by number of completed jobs.

    Frontier states are kept as live snapshots; a transition clones the
    snapshot (deepcopy) and runs one real scheduler iteration under the
    explorer, which enumerates every choice sequence of that iteration.
    Every ``validate_every``-th new state is additionally rebuilt from scratch by
    replaying its complete choice history on a fresh REPEX_state and must give
    the same canonical state (conformance of the snapshot mechanism).

    ``make_observers()`` returns fresh observers; an observer signals a
    violation by raising ``Violation``.  Returns (stats, violations).
    """
    own = workdir is None
    workdir = workdir or os.path.join(scratch.mkdtemp("l1"), "run")
    old_cwd = os.getcwd()
    seen = {}
    viols = {}
    stats = dict(transitions=0, runs=0, validated=0)
    frontier = []
    depth = 0
    capped = False

    def note_violation(v, hist, n_events):
        viols.setdefault(v.sig, (v.msg, dict(spec=spec_to_json(spec), choices=hist, n_events=n_events)))

    def validate(run, hist, ops):
        r2, _ = run_history(spec, hist, len(ops), make_observers(), workdir + "-val", ops=ops)
        if r2.canon() != run.canon():
            raise RuntimeError(f"snapshot/replay divergence for history {hist}")
        stats["validated"] += 1

    try:
        # level 0: every outcome of the initial picks
        def fn0(ch):
            run = L1Run(spec, ch, workdir, make_observers())
            run.start()
            return run

        for ch, res in explore(_guard(fn0)):
            stats["runs"] += 1
            if isinstance(res, Violation):
                note_violation(res, ch.choices, 0)
                continue
            stats["transitions"] += 1
            c = res.canon()
            if on_transition:
                on_transition(c)
            if c not in seen:
                seen[c] = 0
                frontier.append((res, ch.choices, ""))
        while frontier:
            if max_depth is not None and depth >= max_depth:
                capped = True
                break
            depth += 1
            nxt = []
            results = _expand_level(frontier, procs)
            for idx, succ in results:
                snap, hist, ops = frontier[idx]
                for kind, payload, choices, op in succ:
                    stats["runs"] += 1
                    h2 = hist + choices
                    ops2 = ops + op
                    if op != "e":
                        stats["restarts"] = stats.get("restarts", 0) + 1
                    if kind == "viol":
                        viols.setdefault(payload[0], (payload[1], dict(spec=spec_to_json(spec), choices=h2, n_events=depth, ops=ops2)))
                        continue
                    stats["transitions"] += 1
                    c = payload
                    if on_transition:
                        on_transition(c)
                    if c not in seen:
                        if max_states is not None and len(seen) >= max_states:
                            capped = True
                            continue
                        seen[c] = depth
                        # rebuild the live snapshot of the new state in this process
                        run = snap.clone(Chooser(choices))
                        run.apply(op)
                        if run.canon() != c:
                            raise RuntimeError(f"worker/parent divergence for history {h2} {ops2}")
                        if validate_every and len(seen) % validate_every == 0:
                            validate(run, h2, ops2)
                        nxt.append((run, h2, ops2))
            frontier = nxt
    finally:
        os.chdir(old_cwd)
        scenario.close_loggers()
        if own:
            scratch.rmtree(os.path.dirname(workdir))
    return dict(states=len(seen), transitions=stats["transitions"], depth=depth, capped=capped,
                runs=stats["runs"], validated=stats["validated"], frontier_empty=not frontier,
                restarts=stats.get("restarts", 0)), viols


def _guard(fn):
    def g(ch):
        try:
            return fn(ch)
        except Violation as v:
            return v
        except (ReplayError, Pruned):
            raise
        except Exception as e:  # noqa: BLE001 - the real code raised: that is a verdict
            import traceback

            tb = traceback.extract_tb(e.__traceback__)
            where = "?"
            for fr in reversed(tb):
                if "/infretis/" in fr.filename:
                    where = f"{os.path.basename(fr.filename)}:{fr.name}"
                    break
            return Violation(f"exception:{type(e).__name__}:{where}", f"{type(e).__name__}: {e} (in {where})")
    return g


def spec_to_json(spec):
    return dict(B=spec.B, workers=spec.workers, moves=spec.moves, cap=spec.cap, maxlength=spec.maxlength,
                alphabet=spec.alphabet, engine_layout=spec.engine_layout, seed=spec.seed, steps=spec.steps,
                n_jumps=spec.n_jumps, extra=spec.extra, rich=spec.rich, delete_old=spec.delete_old,
                real_store=spec.real_store, labels=spec.labels, restarts=spec.restarts)


def spec_from_json(d):
    return Spec(**d)
