"""Lattice random walk behind the real infretis engine interface.

One particle on sites 0..B; order parameter = site; interfaces at
half-integers 0.5, 1.5, ..., B-0.5.  Site 0 has a reflecting wall (stay with
probability 1 - p_up(0)).  A step goes up with p_up(x), else down.  Birth–death
chains are reversible, so "backward in time" uses the same kernel.

``MemLatticeEngine`` subclasses the real ``EngineBase`` and overrides
``propagate`` (in-memory frames); the stop rule is the real
``EngineBase.add_to_path``.  ``LatticeEngine`` (file mode, goes through the
real ``EngineBase.propagate``/``dump_frame``) lives in
``vf/plugins/lattice_engine.py`` because infretis loads plug-ins by file path.
"""

from __future__ import annotations

from fractions import Fraction

import numpy as np

from infretis.classes.engines.enginebase import EngineBase
from infretis.classes.path import Path
from infretis.classes.system import System

HALF = Fraction(1, 2)


class Dyn:
    """Birth–death dynamics on 0..B."""

    def __init__(self, B, p0=HALF, pin=HALF, name=None):
        self.B = B
        self.p0 = Fraction(p0)
        self.pin = Fraction(pin)
        self.name = name or f"B{B}-p0={self.p0}-pin={self.pin}"

    def p_up(self, x):
        return self.p0 if x == 0 else self.pin

    def T(self, x, y):
        """Transition probability x -> y."""
        if x == 0:
            if y == 1:
                return self.p0
            if y == 0:
                return 1 - self.p0
            return Fraction(0)
        if y == x + 1:
            return self.pin
        if y == x - 1:
            return 1 - self.pin
        return Fraction(0)

    def pi(self, x):
        """Unnormalised reversible measure: pi(x) T(x,x+1) = pi(x+1) T(x+1,x)."""
        w = Fraction(1)
        for k in range(x):
            w = w * self.T(k, k + 1) / self.T(k + 1, k)
        return w

    def path_weight(self, sites):
        """pi(start) * prod T — the equilibrium probability of the path."""
        w = self.pi(sites[0])
        for a, b in zip(sites[:-1], sites[1:]):
            w *= self.T(a, b)
        return w


SYMMETRIC = lambda B: Dyn(B, HALF, HALF, name=f"sym-B{B}")  # noqa: E731
DRIFTED = lambda B: Dyn(B, Fraction(7, 8), Fraction(1, 8), name=f"drift-B{B}")  # noqa: E731


# The origin of the order-parameter axis is arbitrary.  With SHIFT[0] = s the real code sees
# order = site + s, interfaces k + 0.5 + s, cap + s, lambda_-1 + s; the harness and the reference keep
# thinking in sites.  Shifts that put an interface or the cap at exactly 0.0, or everything below zero,
# expose code that treats 0.0 as 'absent' or assumes positive values.
SHIFT = [0.0]


class shifted:
    def __init__(self, s):
        self.s = float(s)

    def __enter__(self):
        self.old = SHIFT[0]
        SHIFT[0] = self.s
        return self

    def __exit__(self, *a):
        SHIFT[0] = self.old
        return False


def o(x):
    """Site coordinate -> order-parameter value handed to the real code (None/False pass through)."""
    if x is None or x is False:
        return x
    return x + SHIFT[0]


def site_of(order):
    return int(round(float(order) - SHIFT[0]))


def interfaces(B):
    return [k + 0.5 + SHIFT[0] for k in range(B)]


def mk_system(x, t=0, config=("init", 0), vel_rev=False, gdt=None):
    s = System()
    # direction of hidden time in which the engine generated this frame (the sign of the velocity
    # stored in the 'file'); together with vel_rev it gives the frame's velocity along a path
    s.gdt = gdt if gdt is not None else (-1 if vel_rev else 1)
    s.order = [float(x) + SHIFT[0]]
    s.config = config
    s.vel_rev = vel_rev
    s.pos = np.array([[float(x), 0.0, 0.0]])
    s.t = t  # hidden time stamp (harness-side, survives System.copy())
    return s


def mk_path(sites, maxlen, generated=("sh", 0.0, 0, 0), number=None, tag="old"):
    p = Path(maxlen=maxlen)
    for i, x in enumerate(sites):
        p.append(mk_system(x, t=i, config=(tag, i)))
    p.generated = generated
    p.status = "ACC"
    p.path_number = number
    return p


def sites(path):
    return tuple(site_of(pp.order[0]) for pp in path.phasepoints)


def snapshot(path):
    """Deep observation of a path's frames (order, referenced configuration,
    velocity flag, hidden time stamp, object identity) used for 'a rejected
    move leaves the old path's frames untouched'."""
    return (
        tuple(
            (float(pp.order[0]), tuple(pp.config), bool(pp.vel_rev), getattr(pp, "t", None), id(pp))
            for pp in path.phasepoints
        ),
        path.path_number,
    )


class MemLatticeEngine(EngineBase):
    """In-memory lattice engine: real EngineBase, real add_to_path."""

    counter = 0

    def __init__(self, dyn):
        super().__init__("lattice-mem", 1.0, 1)
        self.dyn = dyn
        self.rgen = None
        self.order_function = None
        self.n_propagate = 0
        self.log = []

    # -- the only thing the moves need ---------------------------------
    def propagate(self, path, ens_set, system, reverse=False):
        self.n_propagate += 1
        left, _, right = ens_set["interfaces"]
        MemLatticeEngine.counter += 1
        name = f"seg{MemLatticeEngine.counter}{'B' if reverse else 'F'}"
        x = site_of(system.order[0])
        t = getattr(system, "t", 0)
        dt = -1 if reverse else 1
        pp = system.copy()
        pp.config = (name, 0)
        pp.vel_rev = reverse
        pp.gdt = dt  # the start configuration is written with the velocities of the integration direction
        # like the real engines: the caller's system now points to the start conf
        system.set_pos((name + "_conf", 0))
        system.vel_rev = reverse
        status, success, stop, _ = self.add_to_path(path, pp, left, right)
        k = 0
        while not stop:
            u = self.rgen.random()
            if u < self.dyn.p_up(x):
                x = x + 1
            elif x > 0:
                x = x - 1
            k += 1
            t += dt
            pp = mk_system(x, t=t, config=(name, k), vel_rev=reverse)
            status, success, stop, _ = self.add_to_path(path, pp, left, right)
        self.log.append((name, reverse, sites(path)))
        return success, status

    def modify_velocities(self, system, vel_settings):
        # no velocities on a lattice: aimless "kick" leaves the point alone
        return 0.0, 0.0

    def calculate_order(self, system, xyz=None, vel=None, box=None):
        return [float(system.order[0])]

    def dump_phasepoint(self, phasepoint, deffnm="conf"):
        phasepoint.set_pos((f"{deffnm}@{phasepoint.config[0]}:{phasepoint.config[1]}", 0))

    def set_mdrun(self, md_items):
        pass

    def clean_up(self):
        pass

    def _extract_frame(self, traj_file, idx, out_file):
        raise NotImplementedError

    def _propagate_from(self, *a, **k):
        raise NotImplementedError

    def _read_configuration(self, filename):
        raise NotImplementedError

    def _reverse_velocities(self, filename, outfile):
        raise NotImplementedError


def ens_set(kind, B, maxlength, move="sh", cap=None, n_jumps=None, allowmaxlength=False,
            lambda_minus_one=False, rgen=None, i=None):
    """Ensemble dictionary exactly as REPEX_state.initiate_ensembles builds it."""
    intf = interfaces(B)
    tis = {"maxlength": maxlength, "allowmaxlength": allowmaxlength,
           "lambda_minus_one": lambda_minus_one, "quantis": False, "accept_all": False,
           "zero_momentum": False, "aimless": True}
    lambda_minus_one = o(lambda_minus_one)
    tis["lambda_minus_one"] = lambda_minus_one
    if cap is not None:
        tis["interface_cap"] = o(cap)
    if n_jumps is not None:
        tis["n_jumps"] = n_jumps
    if kind == "minus":
        if lambda_minus_one is not False:
            itf = (lambda_minus_one, (lambda_minus_one + intf[0]) / 2, intf[0])
            sc = ["L", "R"]
        else:
            itf = (float("-inf"), intf[0], intf[0])
            sc = "R"
        name = "000"
    elif kind == "zero":
        itf = (intf[0], intf[0], intf[-1])
        sc = "L"
        name = "001"
    else:
        itf = (intf[0], intf[i], intf[-1])
        sc = "L"
        name = f"{i + 1:03d}"
    return {"interfaces": itf, "tis_set": tis, "mc_move": move, "ens_name": name,
            "start_cond": sc, "rgen": rgen}


# ---------------------------------------------------------------------------
# deterministic, exactly time-reversible dynamics (C11, C12)
# ---------------------------------------------------------------------------


class BallisticEngine(EngineBase):
    """Deterministic, exactly time-reversible toy dynamics.

    Phase point (x, v, c): site, velocity +-1, colour c in 0..C-1.
    F = R o S with two involutions: R(x,v,c) = (x,-v,c) (velocity reversal) and
    S(x,v,c) = (x+v, -v, sigma_b(c)) if the bond b = {x, x+v} is open for c,
    else (x, v, c).  Hence R F R = F^-1: running the reversed state forward
    retraces the trajectory.  Colours make trajectories through the same
    (x, v) differ: colour c descends to site -depth[c] and climbs to site
    height[c]; crossing the bond {0,1} applies the transposition ``swap01``.

    Frames store the *running* velocity and vel_rev=reverse, as the file-based
    engines do; the physical velocity is -v when vel_rev.  Optional potential
    table ``vpot[(x, c)]`` and inverse temperature ``beta`` (QuanTIS)."""

    def __init__(self, depth=(0, 1, 2), height=(1, 2, 2), swap01=(1, 0, 2), vpot=None, beta=1.0, name="bal"):
        super().__init__("ballistic", 1.0, 1)
        self.depth = tuple(depth)
        self.height = tuple(height)
        self.swap01 = tuple(swap01)
        assert all(self.swap01[self.swap01[c]] == c for c in range(len(depth)))
        self.vtab = vpot
        self._beta = beta
        self.name = name
        self.n_propagate = 0
        self.rgen = None
        self.counter = 0

    def _open(self, lo_site, c):
        """Is the bond {lo_site, lo_site+1} open for colour c (symmetric under sigma)?"""
        if lo_site == 0:
            return True
        if lo_site < 0:
            return -lo_site <= self.depth[c]
        return lo_site + 1 <= self.height[c]

    def F(self, x, v, c):
        lo = min(x, x + v)
        if self._open(lo, c):
            c2 = self.swap01[c] if lo == 0 else c
            if lo == 0 or self._open(lo, c2):
                return x + v, v, c2
        return x, -v, c

    def propagate(self, path, ens_set, system, reverse=False):
        self.n_propagate += 1
        left, _, right = ens_set["interfaces"]
        self.counter += 1
        name = f"{self.name}{self.counter}{'B' if reverse else 'F'}"
        x = site_of(system.order[0])
        v = int(system.v)
        c = int(system.c)
        if reverse != system.vel_rev:
            v = -v
        t = getattr(system, "t", 0)
        dt = -1 if reverse else 1
        system.set_pos((name + "_conf", 0))
        system.vel_rev = reverse
        k = 0
        while True:
            pp = mk_system(x, t=t, config=(name, k), vel_rev=reverse)
            pp.v = v
            pp.c = c
            if self.vtab is not None:
                pp.vpot = self.vtab.get((x, c), 0.0)
                pp.ekin = 0.5
            status, success, stop, _ = self.add_to_path(path, pp, left, right)
            if stop:
                break
            x, v, c = self.F(x, v, c)
            k += 1
            t += dt
        return success, status

    def modify_velocities(self, system, vel_settings):
        return 0.0, 0.0

    def calculate_order(self, system, xyz=None, vel=None, box=None):
        return [float(system.order[0])]

    def dump_phasepoint(self, phasepoint, deffnm="conf"):
        phasepoint.set_pos((f"{deffnm}@{phasepoint.config[0]}:{phasepoint.config[1]}", 0))

    def set_mdrun(self, md_items):
        pass

    def clean_up(self):
        pass

    def _extract_frame(self, traj_file, idx, out_file):
        raise NotImplementedError

    def _propagate_from(self, *a, **k):
        raise NotImplementedError

    def _read_configuration(self, filename):
        raise NotImplementedError

    def _reverse_velocities(self, filename, outfile):
        raise NotImplementedError


def ballistic_path(eng, x0, v0, c0, interfaces, maxlen, tag="old"):
    """The (unique) trajectory from (x0, v0, c0): first frame outside, then
    until it leaves [left, right] again; built by hand with the map F."""
    left, _, right = interfaces
    p = Path(maxlen=maxlen)
    x, v, c = x0, v0, c0
    k = 0
    while True:
        pp = mk_system(x, t=k, config=(tag, k))
        pp.v = v
        pp.c = c
        if eng.vtab is not None:
            pp.vpot = eng.vtab.get((x, c), 0.0)
            pp.ekin = 0.5
        p.phasepoints.append(pp)
        if k > 0 and (o(x) < left or o(x) > right):
            break
        if k > 4 * maxlen + 50:
            break
        x, v, c = eng.F(x, v, c)
        k += 1
    p.generated = ("sh", 0.0, 0, 0)
    p.status = "ACC"
    return p


def phys(path):
    """Physical (time-forward) phase points (x, v)."""
    return tuple((site_of(pp.order[0]), -pp.v if pp.vel_rev else pp.v, pp.c) for pp in path.phasepoints)
