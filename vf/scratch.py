"""Scratch directories on tmpfs, removed on exit."""
import atexit
import os
import shutil
import tempfile

_made = []


def base():
    for b in ("/dev/shm", os.environ.get("TMPDIR", ""), "/tmp"):
        if b and os.path.isdir(b) and os.access(b, os.W_OK):
            return b
    return tempfile.gettempdir()


def mkdtemp(tag="vf"):
    d = tempfile.mkdtemp(prefix=f"verif-{tag}-", dir=base())
    _made.append((os.getpid(), d))
    return d


def rmtree(d):
    shutil.rmtree(d, ignore_errors=True)


@atexit.register
def _cleanup():
    for pid, d in _made:
        if pid == os.getpid():
            shutil.rmtree(d, ignore_errors=True)
