"""Builders for the real engine classes from the repository's example inputs
(the same way the repository's own tests build them)."""
from __future__ import annotations

import os
import shutil

import numpy as np
import tomli

EX = "/repo/examples"


def _repo():
    from vf.runner import REPO

    return os.path.join(REPO, "examples")


def turtlemd(integrator=None):
    from infretis.classes.engines.factory import create_engine

    p = os.path.join(_repo(), "turtlemd/H2")
    with open(os.path.join(p, "infretis.toml"), "rb") as f:
        cfg = tomli.load(f)
    eng = create_engine(cfg)
    eng.input_path = p
    return eng, os.path.join(p, f"conf.{eng.ext}")


def lammps(temperature=300):
    from infretis.classes.engines.lammps import LAMMPSEngine

    p = os.path.join(_repo(), "lammps/H2/lammps_input")
    eng = LAMMPSEngine("lmp_mpi", p, 0, 0, temperature)
    return eng, os.path.join(p, f"conf.{eng.ext}")


def gromacs(temperature=300, masses=(1.008, 1.008)):
    from infretis.classes.engines.gromacs import GromacsEngine

    p = os.path.join(_repo(), "gromacs/H2/gromacs_input")
    eng = GromacsEngine("echo", p, 0, 0, temperature, masses=list(masses), infretis_genvel=True)
    return eng, os.path.join(p, f"conf.{eng.ext}")


def cp2k(temperature=300):
    from infretis.classes.engines.cp2k import CP2KEngine

    p = os.path.join(_repo(), "cp2k/H2/cp2k_input")
    eng = CP2KEngine("cp2k", p, 1, 1, temperature)
    return eng, os.path.join(p, f"conf.{eng.ext}")


def ase(integrator="langevin", temperature=300):
    from infretis.classes.engines.factory import create_engine

    p = os.path.join(_repo(), "ase/H2")
    with open(os.path.join(p, "infretis0.toml"), "rb") as f:
        cfg = tomli.load(f)
    cfg["engine"]["calculator_settings"]["module"] = os.path.join(p, "H2-calc.py")
    cfg["engine"]["integrator"] = integrator
    cfg["engine"]["temperature"] = temperature
    eng = create_engine(cfg)
    eng.input_path = p
    return eng, os.path.join(p, f"conf.{eng.ext}")


def lattice_plugin():
    from infretis.classes.engines.factory import create_engine
    from vf import scenario

    cfg = scenario.toml_dict(B=3)
    eng = create_engine(cfg)
    return eng, None


BUILDERS = {"turtlemd": turtlemd, "lammps": lammps, "gromacs": gromacs, "cp2k": cp2k, "ase": ase}


def read_vel(eng, conf):
    out = eng._read_configuration(conf)
    return np.array(out[0], dtype=float), np.array(out[1], dtype=float), out[2]


# ---------------------------------------------------------------------------
# variants with two different masses (copies of the example inputs in a scratch dir)
# ---------------------------------------------------------------------------


def hetero(name, wd, temperature=300, int_masses=False):
    """Engine `name` for a two-atom system with masses (15.999, 1.008); returns (engine, conf, masses).
    int_masses: the user wrote the masses as integers (16, 1) in the input (turtlemd, gromacs)."""
    from vf import scratch  # noqa: F401

    if name == "turtlemd":
        from infretis.classes.engines.factory import create_engine

        p = os.path.join(_repo(), "turtlemd/H2")
        with open(os.path.join(p, "infretis.toml"), "rb") as f:
            cfg = tomli.load(f)
        cfg["engine"]["particles"]["mass"] = [16, 1] if int_masses else [15.999, 1.008]
        cfg["engine"]["particles"]["name"] = ["O", "H"]
        eng = create_engine(cfg)
        eng.input_path = p
        return eng, os.path.join(p, f"conf.{eng.ext}"), np.array([16.0, 1.0] if int_masses else [15.999, 1.008])
    if name == "gromacs":
        if int_masses:
            return gromacs(temperature=temperature, masses=(16, 1)) + (np.array([16.0, 1.0]),)
        return gromacs(temperature=temperature, masses=(15.999, 1.008)) + (np.array([15.999, 1.008]),)
    if name == "lammps":
        from infretis.classes.engines.lammps import LAMMPSEngine

        src = os.path.join(_repo(), "lammps/H2/lammps_input")
        dst = os.path.join(wd, "lammps_input")
        shutil.copytree(src, dst)
        data = open(os.path.join(dst, "lammps.data")).read()
        data = data.replace("1 atom types", "2 atom types").replace("1\t1.007947\n", "1\t15.999\n2\t1.007947\n")
        data = data.replace("2\t1\t1 0.000\t3.330", "2\t1\t2 0.000\t3.330")
        open(os.path.join(dst, "lammps.data"), "w").write(data)
        eng = LAMMPSEngine("lmp_mpi", dst, 0, 0, temperature)
        return eng, os.path.join(dst, f"conf.{eng.ext}"), np.array(eng.mass, dtype=float).reshape(-1)
    if name == "cp2k":
        from infretis.classes.engines.cp2k import CP2KEngine

        src = os.path.join(_repo(), "cp2k/H2/cp2k_input")
        dst = os.path.join(wd, "cp2k_input")
        shutil.copytree(src, dst)
        txt = open(os.path.join(dst, "conf.xyz")).read().replace("  H  ", "  O  ", 1)
        open(os.path.join(dst, "conf.xyz"), "w").write(txt)
        eng = CP2KEngine("cp2k", dst, 1, 1, temperature)
        return eng, os.path.join(dst, f"conf.{eng.ext}"), np.array(eng.mass, dtype=float).reshape(-1)
    if name == "ase":
        from ase.io import read, write
        from infretis.classes.engines.factory import create_engine

        p = os.path.join(_repo(), "ase/H2")
        with open(os.path.join(p, "infretis0.toml"), "rb") as f:
            cfg = tomli.load(f)
        cfg["engine"]["calculator_settings"]["module"] = os.path.join(p, "H2-calc.py")
        cfg["engine"]["integrator"] = "velocityverlet"
        cfg["engine"]["temperature"] = temperature
        eng = create_engine(cfg)
        at = read(os.path.join(p, "conf.traj"))
        at.set_chemical_symbols(["O", "H"])
        conf = os.path.join(wd, "conf_OH.traj")
        write(conf, at)
        eng.input_path = wd
        return eng, conf, np.array(at.get_masses(), dtype=float)
    raise ValueError(name)
