"""Check runner: context object, evidence writing, known findings, replays.

Usage: /verif/bin/check <ID> [--tier quick|thorough] [--replay FILE]

Exit codes: 0 property held on everything explored (known findings printed),
1 violation (``VIOLATION property=<id> replay=<path>``), 2 harness error.
"""

from __future__ import annotations

import importlib
import json
import os
import subprocess
import sys
import time
import traceback

VERIF = os.path.dirname(os.path.dirname(os.path.abspath(__file__)))
REPO = os.environ.get("VERIF_REPO", "/repo")

# Always run the working tree of /repo.
if REPO not in sys.path:
    sys.path.insert(0, REPO)
os.environ.setdefault("INFRETIS_VERIF", "1")
import importlib.util  # noqa: E402,F401  (factory.py relies on importlib.util being loaded)


LEVELS = (
    "exploration",
    "fault_enumeration",
    "model_checking",
    "proof",
    "translation_validation",
    "other",
)


class HarnessError(RuntimeError):
    pass


class Ctx:
    """Per-run context handed to a check module's ``run(ctx)``."""

    def __init__(self, pid, tier, seed):
        self.pid = pid
        self.tier = tier
        self.seed = seed
        self.quick = tier == "quick"
        self.coverage = {}
        self.samples = []
        self._distinct = set()
        self.violations = []  # dicts(signature, message, replay)
        self.assumptions = []
        self.notes = []
        self.level = None
        self.exhaustive = True
        self.caps = []

    # -- counters ------------------------------------------------------
    def add(self, key, n=1):
        self.coverage[key] = self.coverage.get(key, 0) + n

    def set(self, key, val):
        self.coverage[key] = val

    def distinct(self, key):
        self._distinct.add(key)

    def distinct_many(self, keys):
        self._distinct.update(keys)

    def sample(self, obj, maxn=6):
        if len(self.samples) < maxn:
            self.samples.append(obj)

    def cap(self, what):
        self.exhaustive = False
        self.caps.append(what)

    def assume(self, text):
        if text not in self.assumptions:
            self.assumptions.append(text)

    def note(self, text):
        self.notes.append(text)
        print(f"[{self.pid}] {text}", flush=True)

    # -- violations ----------------------------------------------------
    def violation(self, signature, message, replay=None):
        """Record a violation.  ``signature`` identifies the failing input /
        call site / history class (used for known findings); ``replay`` is a
        JSON-able dict that the module's ``replay(data)`` re-executes."""
        self.violations.append(
            dict(signature=signature, message=message, replay=replay or {})
        )


def _load_known():
    path = os.path.join(VERIF, "known_findings.json")
    if not os.path.exists(path):
        return []
    with open(path) as f:
        data = json.load(f)
    return data.get("findings", [])


def _validate_evidence(ev):
    """Minimal structural validation mirroring EVIDENCE.schema.json."""
    for k in ("property_id", "tier", "seed", "level", "coverage", "wall_s"):
        if k not in ev:
            raise HarnessError(f"evidence lacks {k}")
    lvl = ev["level"]
    cov = ev["coverage"]
    if lvl not in LEVELS:
        raise HarnessError("bad level")
    generic_ok = (
        isinstance(cov.get("evaluations"), int)
        and cov["evaluations"] >= 1
        and isinstance(cov.get("distinct_nontrivial"), int)
        and cov["distinct_nontrivial"] >= 2
        and isinstance(cov.get("samples"), list)
        and len(cov["samples"]) >= 1
        and isinstance(cov.get("rule"), str)
    )
    if lvl in ("exploration", "fault_enumeration"):
        if not generic_ok:
            raise HarnessError(f"evidence coverage incomplete for {lvl}: {cov}")
    elif lvl == "model_checking":
        mc_ok = (
            isinstance(cov.get("states"), int)
            and cov["states"] >= 1
            and isinstance(cov.get("transitions"), int)
            and cov["transitions"] >= 1
            and isinstance(cov.get("traces_validated_against_impl"), int)
            and isinstance(cov.get("samples"), list)
            and len(cov["samples"]) >= 1
        )
        if not (mc_ok or generic_ok):
            raise HarnessError(f"evidence coverage incomplete for {lvl}: {cov}")


def write_evidence(ctx, wall, n_viol):
    cov = dict(ctx.coverage)
    cov.setdefault("evaluations", 0)
    cov["distinct_nontrivial"] = len(ctx._distinct)
    cov["samples"] = ctx.samples
    cov["exhaustive"] = bool(ctx.exhaustive)
    if ctx.caps:
        cov["caps_hit"] = ctx.caps
    if ctx.notes:
        cov["notes"] = ctx.notes
    ev = dict(
        property_id=ctx.pid,
        tier=ctx.tier,
        seed=ctx.seed,
        level=ctx.level,
        coverage=cov,
        assumptions=ctx.assumptions,
        wall_s=round(wall, 3),
        violations=n_viol,
    )
    _validate_evidence(ev)
    os.makedirs(os.path.join(VERIF, "evidence"), exist_ok=True)
    path = os.path.join(VERIF, "evidence", f"{ctx.pid}.json")
    tmp = path + ".tmp"
    with open(tmp, "w") as f:
        json.dump(ev, f, indent=1, default=str)
        f.write("\n")
    os.replace(tmp, path)
    return path


def _check_repo_import():
    import infretis

    p = os.path.realpath(infretis.__file__)
    if not p.startswith(os.path.realpath(REPO) + os.sep):
        raise HarnessError(f"infretis imported from {p}, not from {REPO}")


def load_check(pid):
    return importlib.import_module(f"checks.{pid.lower()}")


def do_replay(pid, path):
    """Re-execute one stored case; prints REPLAY-VIOLATION <signature> lines."""
    mod = load_check(pid)
    with open(path) as f:
        data = json.load(f)
    out = mod.replay(data["replay"])
    # ``out`` is a list of (signature, message)
    for sig, msg in out or []:
        print(f"REPLAY-VIOLATION {sig} :: {msg}")
    return 1 if out else 0


def main(argv=None):
    import argparse

    ap = argparse.ArgumentParser()
    ap.add_argument("pid")
    ap.add_argument("--tier", default=os.environ.get("VERIF_TIER", "quick"))
    ap.add_argument("--replay")
    ap.add_argument("--no-confirm", action="store_true")
    args = ap.parse_args(argv)
    pid = args.pid.upper()
    seed = int(os.environ.get("VERIF_SEED", "0") or 0)
    if VERIF not in sys.path:
        sys.path.insert(0, VERIF)
    try:
        _check_repo_import()
        if args.replay:
            return do_replay(pid, args.replay)
        mod = load_check(pid)
        ctx = Ctx(pid, args.tier, seed)
        ctx.level = mod.LEVEL
        t0 = time.time()
        mod.run(ctx)
        wall = time.time() - t0
    except HarnessError as e:
        print(f"HARNESS-ERROR {pid}: {e}")
        traceback.print_exc()
        return 2
    except Exception as e:  # noqa: BLE001
        print(f"HARNESS-ERROR {pid}: unexpected {type(e).__name__}: {e}")
        traceback.print_exc()
        return 2

    known = [k for k in _load_known() if k.get("property") == pid]
    seen_known = {}
    new = {}
    for v in ctx.violations:
        hit = None
        for k in known:
            if k.get("status", "open") != "open":
                continue  # fixed entries suppress nothing
            if v["signature"] == k["signature"]:
                hit = k
                break
        if hit is not None:
            seen_known.setdefault(hit["signature"], (hit, v))
        else:
            new.setdefault(v["signature"], v)

    for sig, (k, v) in sorted(seen_known.items()):
        print(f"KNOWN-FINDING: property={pid} {k.get('what', sig)} [{sig}]")

    rc = 0
    os.makedirs(os.path.join(VERIF, "replays"), exist_ok=True)
    from vf.explore import digest

    for sig, v in sorted(new.items()):
        rp = os.path.join(VERIF, "replays", f"{pid}-{digest([sig, v['replay']])}.json")
        with open(rp, "w") as f:
            json.dump(
                dict(property=pid, signature=sig, message=v["message"], replay=v["replay"]),
                f,
                indent=1,
                default=str,
            )
        confirmed = True
        if not args.no_confirm and hasattr(mod, "replay") and v["replay"]:
            # a violation must reproduce from a fresh process: twice in the environment of this run
            # (same PYTHONHASHSEED), and is additionally tried under another hash seed
            own = os.environ.get("PYTHONHASHSEED", "0")
            other = "1" if own != "1" else "2"
            outs = []
            for hs in (own, own, other):
                env = dict(os.environ, PYTHONHASHSEED=hs)
                pr = subprocess.run(
                    [sys.executable, "-m", "vf.runner", pid, "--replay", rp],
                    cwd=VERIF,
                    env=env,
                    capture_output=True,
                    text=True,
                )
                outs.append(
                    sorted(
                        ln.split(" :: ")[0]
                        for ln in pr.stdout.splitlines()
                        if ln.startswith("REPLAY-VIOLATION")
                    )
                )
            if not outs[0] or outs[0] != outs[1] or f"REPLAY-VIOLATION {sig}" not in outs[0]:
                confirmed = False
                print(
                    f"HARNESS-ERROR {pid}: violation {sig} did not reproduce "
                    f"identically from replay {rp}: {outs[:2]}"
                )
            elif f"REPLAY-VIOLATION {sig}" not in outs[2]:
                print(f"  note: {sig} reproduces with PYTHONHASHSEED={own} (twice) but not with PYTHONHASHSEED={other}: "
                      f"the behaviour of the code under test depends on hash ordering")
        print(f"  {sig}: {v['message']}")
        if confirmed:
            print(f"VIOLATION property={pid} replay={rp}")
            rc = max(rc, 1)
        else:
            rc = 2

    try:
        path = write_evidence(ctx, wall, len(new))
    except HarnessError as e:
        print(f"HARNESS-ERROR {pid}: {e}")
        return 2
    cov = ctx.coverage
    print(
        f"[{pid}] tier={args.tier} seed={seed} wall={wall:.1f}s "
        f"evaluations={cov.get('evaluations', 0)} states={cov.get('states', '-')} "
        f"transitions={cov.get('transitions', '-')} distinct={len(ctx._distinct)} "
        f"exhaustive={ctx.exhaustive} new_violations={len(new)} "
        f"known={len(seen_known)} evidence={path}"
    )
    return rc


if __name__ == "__main__":
    sys.exit(main())
