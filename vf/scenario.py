"""Build complete infretis run directories for the lattice model and reset the
process-global state infretis keeps between runs."""

from __future__ import annotations

import logging
import os

import numpy as np
import tomli_w

HERE = os.path.dirname(os.path.abspath(__file__))
PLUGIN = os.path.join(HERE, "plugins", "lattice_engine.py")


def default_init_sites(B):
    """Shortest valid initial path per ensemble: [0-], [0+], [1+], ..."""
    out = [(1, 0, 1)]
    for i in range(B - 1):
        up = list(range(0, i + 2))
        out.append(tuple(up + up[-2::-1]))
    return out


def toml_dict(B=3, workers=1, moves=None, cap=None, steps=10, seed=0, maxlength=12,
              p0=0.5, pin=0.5, delete_old=False, delete_old_all=False, n_jumps=None,
              allowmaxlength=False, lambda_minus_one=None, engine_class="LatticeEngine",
              keep_traj_fnames=None, energies=False, screen=1, pattern=False, engine_extra=None,
              ensemble_engines=None, extra_engines=None, quantis=None, subcycles=1):
    n_ens = B  # interfaces 0.5 .. B-0.5 -> B interfaces -> ensembles [0-],[0+],...,[(B-2)+]
    cfg = {
        "runner": {"workers": workers},
        "simulation": {
            "interfaces": [k + 0.5 for k in range(B)],
            "steps": steps,
            "seed": seed,
            "load_dir": "load",
            "shooting_moves": list(moves) if moves else ["sh"] * n_ens,
            "tis_set": {"maxlength": maxlength, "allowmaxlength": allowmaxlength, "zero_momentum": False},
        },
        "engine": {"class": engine_class, "module": PLUGIN, "B": B, "p0": p0, "pin": pin,
                   "timestep": 1.0, "subcycles": subcycles, "energies": energies},
        "orderparameter": {"class": "Position", "index": [0, 0], "periodic": False},
        "output": {"data_dir": "./", "screen": screen, "pattern": pattern,
                   "delete_old": delete_old, "delete_old_all": delete_old_all},
    }
    if engine_extra:
        cfg["engine"].update(engine_extra)
    if n_jumps is not None:
        cfg["simulation"]["tis_set"]["n_jumps"] = n_jumps
    if cap is not None:
        cfg["simulation"]["tis_set"]["interface_cap"] = cap
    if lambda_minus_one is not None:
        cfg["simulation"]["tis_set"]["lambda_minus_one"] = lambda_minus_one
    if quantis is not None:
        cfg["simulation"]["tis_set"]["quantis"] = quantis
    if keep_traj_fnames:
        cfg["output"]["keep_traj_fnames"] = keep_traj_fnames
    if ensemble_engines:
        cfg["simulation"]["ensemble_engines"] = ensemble_engines
    for k, v in (extra_engines or {}).items():
        cfg[k] = v
    return cfg


def write_init_path(load_dir, number, sites, vels=None, split=None, with_energy=False):
    """Write load/<number>/ in infretis' own storage format using the real
    PathStorage (so the format is whatever the code reads back)."""
    from infretis.classes.engines.engineparts import write_xyz_trajectory
    from infretis.classes.formatter import PathStorage
    from infretis.classes.path import Path
    from infretis.classes.system import System

    tmp = os.path.join(load_dir, f"_tmp{number}")
    os.makedirs(tmp, exist_ok=True)
    files = []
    # optionally split the frames over two trajectory files (multi-file path)
    cut = len(sites) if not split else split
    names = [os.path.join(tmp, "traj.xyz")] + ([os.path.join(tmp, "trajB.xyz")] if split else [])
    p = Path(maxlen=10**6)
    for k, x in enumerate(sites):
        f = names[0] if k < cut else names[1]
        idx = k if k < cut else k - cut
        v = 0.0 if vels is None else float(vels[k])
        write_xyz_trajectory(f, np.array([[float(x), 0.0, 0.0]]), np.array([[v, 0.0, 0.0]]), ["X"],
                             np.array([100.0, 100.0, 100.0]), step=idx)
        s = System()
        s.order = [float(x)]
        s.config = (f, idx)
        s.vel_rev = False
        if with_energy:
            s.vpot, s.ekin = float(x), 0.5
        p.phasepoints.append(s)
        files.append(f)
    p.path_number = number
    p.status = "ACC"
    PathStorage().output(0, {"path": p, "dir": load_dir})
    os.rmdir(tmp)


def build(root, init_sites=None, **kw):
    """Create <root>/infretis.toml and <root>/load/<n>/...; returns toml path."""
    os.makedirs(root, exist_ok=True)
    cfg = toml_dict(**kw)
    B = kw.get("B", 3)
    with open(os.path.join(root, "infretis.toml"), "wb") as f:
        tomli_w.dump(cfg, f)
    load = os.path.join(root, "load")
    os.makedirs(load, exist_ok=True)
    sites = init_sites or default_init_sites(B)
    for n, s in enumerate(sites):
        write_init_path(load, n, s)
    return os.path.join(root, "infretis.toml")


# ---------------------------------------------------------------------------
# process-global state owned by the harness
# ---------------------------------------------------------------------------


def reset_globals():
    """Everything infretis keeps at class / module level between runs."""
    from infretis.classes import repex
    from infretis.classes.engines import enginebase
    from infretis.core import tis

    repex.REPEX_state.config = {}
    repex.REPEX_state.traj_data = {}
    repex.REPEX_state.ensembles = {}
    repex.REPEX_state.engine_occ = {}
    repex.REPEX_state.cworker = None
    tis.ENGINES = {}
    if hasattr(enginebase.counter, "count"):
        del enginebase.counter.count
    close_loggers()


def close_loggers():
    for name in ("main", ""):
        lg = logging.getLogger(name)
        for h in list(lg.handlers):
            if isinstance(h, (logging.FileHandler, logging.StreamHandler)) and not isinstance(h, logging.NullHandler):
                try:
                    h.close()
                except Exception:  # noqa: BLE001
                    pass
                lg.removeHandler(h)


class cwd:
    def __init__(self, d):
        self.d = d

    def __enter__(self):
        self.old = os.getcwd()
        os.chdir(self.d)

    def __exit__(self, *a):
        os.chdir(self.old)
