"""L2 harness: the real program (setup_config -> scheduler) with the process
pool replaced by an inline runner whose completion order the caller controls.

``run_md`` is called synchronously at submission time, through a pickle
round-trip in both directions (the production process boundary; without it
wire_fencing's mutation of the shared tis_set leaks into the scheduler's
config).  The fake future list hands out finished results in the order chosen
by ``order_fn(n_inflight) -> index`` (default FIFO).
"""

from __future__ import annotations

import os
import pickle

from vf import scenario


class FakeFuture:
    def __init__(self, result=None, exc=None, tag=None):
        self._result = result
        self._exc = exc
        self.tag = tag
        self.consumed = 0

    def done(self):
        return True

    def result(self):
        self.consumed += 1
        if self._exc is not None:
            raise self._exc
        return self._result


class InlineRunner:
    def __init__(self, task, boundary=True, log=None):
        self.task = task
        self.boundary = boundary
        self.submitted = 0
        self.stopped = 0
        self.log = log if log is not None else []
        self.futures = []

    def submit_work(self, md_items):
        self.submitted += 1
        if self.boundary:
            job = pickle.loads(pickle.dumps(md_items))
        else:
            job = md_items
        self.log.append(("submit", job.get("pin"), tuple(job.get("ens_nums", ())),
                         tuple(job.get("pnum_old", ()))))
        out = self.task(job)
        if self.boundary:
            out = pickle.loads(pickle.dumps(out))
        f = FakeFuture(result=out, tag=self.submitted)
        self.futures.append(f)
        return f

    def stop(self):
        self.stopped += 1


class FakeFutureList:
    def __init__(self, order_fn=None, log=None):
        self._futures = []
        self.order_fn = order_fn or (lambda n: 0)
        self.log = log if log is not None else []

    def add(self, fut):
        self._futures.append(fut)

    def as_completed(self):
        if not self._futures:
            return None
        i = self.order_fn(len(self._futures))
        fut = self._futures.pop(i)
        self.log.append(("complete", fut.tag))
        return fut


class Program:
    """One run of the real program in directory ``root``."""

    def __init__(self, root, order_fn=None, task=None, boundary=True):
        self.root = root
        self.order_fn = order_fn
        self.task = task
        self.boundary = boundary
        self.log = []
        self.runner = None
        self.futures = None
        self.state = None

    def run(self, toml="infretis.toml"):
        """Returns 'none' if setup_config declined to run, else 'done'."""
        import infretis.scheduler as sch
        import infretis.setup as stp
        from infretis.core import tis

        scenario.reset_globals()
        old = os.getcwd()
        os.chdir(self.root)
        orig_runner = sch.setup_runner
        orig_internal = sch.setup_internal
        prog = self

        def fake_setup_runner(state):
            prog.state = state
            prog.runner = InlineRunner(prog.task or tis.run_md, boundary=prog.boundary, log=prog.log)
            prog.futures = FakeFutureList(prog.order_fn, log=prog.log)
            return prog.runner, prog.futures

        sch.setup_runner = fake_setup_runner
        try:
            config = stp.setup_config(toml)
            if config is None:
                return "none"
            self.config = config
            sch.scheduler(config)
            return "done"
        finally:
            sch.setup_runner = orig_runner
            sch.setup_internal = orig_internal
            os.chdir(old)
            scenario.close_loggers()


def clean_run_files(root):
    """Remove everything a run writes except infretis.toml and load/0..n-1."""
    import shutil

    for f in os.listdir(root):
        p = os.path.join(root, f)
        if f in ("infretis.toml", "load"):
            continue
        if os.path.isdir(p):
            shutil.rmtree(p, ignore_errors=True)
        else:
            os.remove(p)


def read_tree(root, skip=("sim.log", "pattern.txt")):
    """{relative path: bytes} of a run directory (worker scratch and logs excluded)."""
    out = {}
    for dp, dn, fn in os.walk(root):
        rel = os.path.relpath(dp, root)
        if rel.startswith("worker"):
            continue
        for f in fn:
            if f in skip or f.startswith("worker"):
                continue
            p = os.path.join(dp, f)
            with open(p, "rb") as fh:
                out[os.path.normpath(os.path.join(rel, f))] = fh.read()
    return out


def state_of(root):
    """Property-relevant on-disk state of a run directory: data file bytes,
    restart.toml (parsed, minus restarted_from), order/traj text of live paths."""
    import tomli

    out = {}
    for f in sorted(os.listdir(root)):
        if f.startswith("infretis_data"):
            with open(os.path.join(root, f), "rb") as fh:
                out[f] = fh.read()
    rt = os.path.join(root, "restart.toml")
    if os.path.isfile(rt):
        with open(rt, "rb") as fh:
            cfg = tomli.load(fh)
        cfg["current"].pop("restarted_from", None)
        out["restart.toml"] = cfg
        load = os.path.join(root, cfg["simulation"]["load_dir"])
        for pn in cfg["current"]["active"]:
            # traj.txt names the trajectory files, whose names contain the pid and a
            # per-process counter: not part of what the property promises
            for t in ("order.txt",):
                p = os.path.join(load, str(pn), t)
                if os.path.isfile(p):
                    with open(p, "rb") as fh:
                        out[f"load/{pn}/{t}"] = fh.read()
    return out


def diff_states(a, b):
    keys = sorted(set(a) | set(b))
    return [k for k in keys if a.get(k) != b.get(k)]


def set_steps(root, steps, toml="restart.toml"):
    import tomli
    import tomli_w

    p = os.path.join(root, toml)
    with open(p, "rb") as f:
        cfg = tomli.load(f)
    cfg["simulation"]["steps"] = steps
    with open(p, "wb") as f:
        tomli_w.dump(cfg, f)


if __name__ == "__main__":
    # python -m vf.l2 <root> <toml> : one whole-program run with the inline runner (FIFO)
    import sys

    sys.path.insert(0, os.environ.get("VERIF_REPO", "/repo"))
    import importlib.util  # noqa: F401

    prog = Program(sys.argv[1])
    print(prog.run(sys.argv[2] if len(sys.argv) > 2 else "infretis.toml"))
