"""File-mode lattice engines, loaded by infretis through its plug-in path
([engine] class = "LatticeEngine", module = "<this file>").

They subclass the real EngineBase and implement only the abstract methods, so
the real EngineBase.propagate / dump_frame / calculate_order / add_to_path run
unchanged.  Configurations are extended-xyz files with one particle whose x
coordinate is the lattice site.

LatticeEngine  : random walk (up with p_up(x) = p0 at x == 0 else pin),
                 steps drawn from self.rgen (the job's engine stream).
BallisticFile  : deterministic (x, v) map with walls, exactly reversible;
                 velocity reversal goes through the files.
"""
import os

import numpy as np

from infretis.classes.engines.enginebase import EngineBase
from infretis.classes.engines.engineparts import (
    convert_snapshot,
    read_xyz_file,
    write_xyz_trajectory,
)


class LatticeEngine(EngineBase):
    def __init__(self, B=3, p0=0.5, pin=0.5, timestep=1.0, subcycles=1, energies=False):
        super().__init__("lattice-file", timestep, subcycles)
        self.B = int(B)
        self.p0 = float(p0)
        self.pin = float(pin)
        self.ext = "xyz"
        self.energies = bool(energies)
        self._beta = 1.0
        self.name = ["X"]
        self.box = np.array([100.0, 100.0, 100.0])

    def p_up(self, x):
        return self.p0 if x == 0 else self.pin

    def step(self, x, v):
        """Required by create_external; one MD step."""
        u = self.rgen.random()
        if u < self.p_up(x):
            return x + 1, v
        if x > 0:
            return x - 1, v
        return x, v

    def set_mdrun(self, md_items):
        self.exe_dir = md_items["exe_dir"]

    def _read_configuration(self, filename):
        for snapshot in read_xyz_file(filename):
            box, xyz, vel, names = convert_snapshot(snapshot)
            return xyz, vel, box, names
        raise ValueError("Missing lattice configuration")

    def _extract_frame(self, traj_file, idx, out_file):
        for i, snapshot in enumerate(read_xyz_file(traj_file)):
            if i == idx:
                box, xyz, vel, names = convert_snapshot(snapshot)
                write_xyz_trajectory(out_file, xyz, vel, names, box, append=False)
                return
        raise ValueError(f"frame {idx} not in {traj_file}")

    def _reverse_velocities(self, filename, outfile):
        xyz, vel, box, names = self._read_configuration(filename)
        write_xyz_trajectory(outfile, xyz, -1.0 * vel, names, box, append=False)

    def modify_velocities(self, system, vel_settings):
        pos = self.dump_frame(system)
        xyz, vel, box, names = self._read_configuration(pos)
        conf_out = os.path.join(self.exe_dir, f"genvel.{self.ext}")
        write_xyz_trajectory(conf_out, xyz, vel, names, box, append=False)
        system.config = (conf_out, 0)
        system.ekin = 0.0
        return 0.0, 0.0

    def _propagate_from(self, name, path, system, ens_set, msg_file, reverse=False):
        left, _, right = ens_set["interfaces"]
        initial_conf = system.config[0]
        pos, vel, box, names = self._read_configuration(initial_conf)
        x = int(round(pos[0, 0]))
        v = vel[0, 0]
        traj_file = os.path.join(self.exe_dir, f"{name}.{self.ext}")
        msg_file.write(f"# Trajectory file is: {traj_file}")
        step_nr = 0
        success, status = False, "propagating"
        ekin, vpot = [], []
        for i in range(path.maxlen * self.subcycles + 1):
            if i % self.subcycles == 0:
                pos[0, 0] = float(x)
                vel[0, 0] = v
                write_xyz_trajectory(traj_file, pos, vel, names, box, step=step_nr)
                order = self.calculate_order(system, xyz=pos.copy(), vel=vel.copy(), box=box)
                msg_file.write(f'{step_nr} {" ".join([str(j) for j in order])}')
                snapshot = {"order": order, "config": (traj_file, step_nr), "vel_rev": reverse}
                phase_point = self.snapshot_to_system(system, snapshot)
                ekin.append(0.5)
                vpot.append(float(x))
                status, success, stop, add = self.add_to_path(path, phase_point, left, right)
                if stop:
                    break
                step_nr += 1
            x, v = self.step(x, v)
        if self.energies:
            path.update_energies(ekin, vpot)
        msg_file.write("# Propagation done.")
        return success, status


class BallisticFile(LatticeEngine):
    """(x, v) -> (x+v, v) inside [lo, hi], else (x, -v).  Exactly reversible."""

    def __init__(self, lo=-2, hi=2, timestep=1.0, subcycles=1, energies=False):
        super().__init__(B=hi + 1, timestep=timestep, subcycles=subcycles, energies=energies)
        self.description = "ballistic-file"
        self.lo, self.hi = int(lo), int(hi)

    def step(self, x, v):
        iv = int(round(v))
        if self.lo <= x + iv <= self.hi:
            return x + iv, v
        return x, -v
