"""Explorer core: stateless enumeration of all choice sequences with exact
probabilities, lazily refined uniform draws, and a worklist closure helper.

An *execution* is a function ``fn(chooser)`` that asks the chooser at every
point of nondeterminism.  ``explore(fn)`` runs ``fn`` once per distinct choice
sequence (prefix replay, DFS order, alternative 0 first) and yields
``(chooser, result)``.  Replaying a prefix whose choice is out of range or
whose label differs is a hard error (nondeterminism escaped the harness).
"""

from __future__ import annotations

import hashlib
import json
from fractions import Fraction


class ReplayError(RuntimeError):
    """A replayed prefix did not fit the execution: the harness lost control
    of some source of nondeterminism."""


class Pruned(Exception):
    """Raised by a harness to abandon an execution (e.g. horizon reached)."""


def _as_frac(x):
    if isinstance(x, Fraction):
        return x
    if isinstance(x, int):
        return Fraction(x)
    return Fraction(float(x))  # exact value of the double


class Chooser:
    """One execution's choice recorder / replayer."""

    def __init__(self, prefix=(), labels=None, max_dev=None):
        self.prefix = list(prefix)
        self.prefix_labels = labels
        self.trace = []  # (choice, n, label, weights)
        self.max_dev = max_dev
        self.forced = []  # [(label_prefix, value)]: answers dictated by the harness (no branching)

    # -- choice points -------------------------------------------------
    def choose(self, n_or_weights, label=""):
        if isinstance(n_or_weights, int):
            n = n_or_weights
            weights = None
        else:
            weights = list(n_or_weights)
            n = len(weights)
        if n <= 0:
            raise ReplayError(f"empty choice at {label!r}")
        val = None
        if isinstance(self.forced, dict):
            for pre, lst in self.forced.items():
                if lst and label.startswith(pre):
                    val = lst.pop(0)
                    if callable(val):
                        val = val(n, weights)
                    break
        elif self.forced and label.startswith(self.forced[0][0]):
            _, val = self.forced.pop(0)
            if callable(val):
                val = val(n, weights)
        if isinstance(val, list):
            # restricted choice: an ordinary choice point among the allowed indices
            if len(val) == 1:
                val = val[0]
            else:
                weights = [(weights[i] if weights is not None else 1) if i in val else 0 for i in range(n)]
                val = None
        if val is not None:
            if not 0 <= val < n:
                raise ReplayError(f"forced answer {val} out of range at {label!r}")
            if weights is not None and not weights[val] > 0:
                raise ReplayError(f"forced answer {val} has zero weight at {label!r}")
            # recorded as a one-way point so that prefixes stay aligned
            i = len(self.trace)
            if i < len(self.prefix) and self.prefix[i] != 0:
                raise ReplayError(f"replay mismatch at forced point {label!r}")
            self.trace.append((0, 1, label + "!", None))
            return val
        i = len(self.trace)
        if i < len(self.prefix):
            c = self.prefix[i]
            if not 0 <= c < n:
                raise ReplayError(
                    f"replay out of range at step {i} ({label!r}): {c} >= {n}"
                )
            if self.prefix_labels is not None and i < len(self.prefix_labels):
                if self.prefix_labels[i] != label:
                    raise ReplayError(
                        f"replay label mismatch at step {i}: "
                        f"{self.prefix_labels[i]!r} != {label!r}"
                    )
            if weights is not None and not weights[c] > 0:
                raise ReplayError(
                    f"replay picks zero-weight branch at step {i} ({label!r})"
                )
        else:
            c = 0
            if weights is not None:
                while c < n and not weights[c] > 0:
                    c += 1
                if c == n:
                    raise ReplayError(f"all weights zero at {label!r}")
        self.trace.append((c, n, label, weights))
        return c

    # -- derived -------------------------------------------------------
    @property
    def choices(self):
        return [t[0] for t in self.trace]

    @property
    def labels(self):
        return [t[2] for t in self.trace]

    def prob(self):
        """Exact probability of this execution (Fraction) given that every
        weighted choice carried normalised weights; unweighted choices with n
        alternatives count 1/n."""
        p = Fraction(1)
        for c, n, _, w in self.trace:
            if w is None:
                p *= Fraction(1, n)
            else:
                tot = sum(_as_frac(x) for x in w)
                p *= _as_frac(w[c]) / tot
        return p

    def prob_float(self):
        p = 1.0
        for c, n, _, w in self.trace:
            if w is None:
                p /= n
            else:
                p *= float(w[c]) / float(sum(float(x) for x in w))
        return p

    def deviations(self, upto=None, free=()):
        """Number of non-default choices; labels starting with one of ``free``
        do not count (they are explored exhaustively)."""
        tr = self.trace if upto is None else self.trace[:upto]
        d = 0
        for c, n, lab, w in tr:
            if free and lab.startswith(tuple(free)):
                continue
            first = 0
            if w is not None:
                while first < n and not w[first] > 0:
                    first += 1
            if c != first:
                d += 1
        return d


def explore(fn, max_dev=None, prefix=(), limit=None, free=()):
    """Enumerate all executions of ``fn``.

    Yields ``(chooser, result)``.  ``max_dev`` bounds the number of
    non-default choices (None = unbounded, i.e. the full product).
    ``limit`` caps the number of executions (the caller must then report the
    cap; ``explore.capped`` is set on the generator's ``stats`` dict).
    """
    stack = [list(prefix)]
    n_exec = 0
    while stack:
        pre = stack.pop()
        ch = Chooser(pre)
        try:
            res = fn(ch)
        except Pruned as e:
            res = e
        n_exec += 1
        yield ch, res
        if limit is not None and n_exec >= limit:
            return
        # schedule alternatives, deepest last so that DFS continues from the
        # shallowest unexplored alternative last (stack order: push shallow
        # first, deep last → deep popped first).
        tr = ch.trace
        for i in range(len(pre), len(tr)):
            c, n, lab, w = tr[i]
            if max_dev is not None and not (free and lab.startswith(tuple(free))):
                # cost before i plus one for deviating here
                if ch.deviations(upto=i, free=free) + 1 > max_dev:
                    continue
            alts = []
            for alt in range(c + 1, n):
                if w is not None and not w[alt] > 0:
                    continue
                alts.append(alt)
            base = [t[0] for t in tr[:i]]
            for alt in reversed(alts):
                stack.append(base + [alt])


def _alternatives(ch, pre_len, max_dev, free):
    """The prefixes explore() would push after this execution."""
    out = []
    tr = ch.trace
    for i in range(pre_len, len(tr)):
        c, n, lab, w = tr[i]
        if max_dev is not None and not (free and lab.startswith(tuple(free))):
            if ch.deviations(upto=i, free=free) + 1 > max_dev:
                continue
        base = [t[0] for t in tr[:i]]
        for alt in range(c + 1, n):
            if w is not None and not w[alt] > 0:
                continue
            out.append(base + [alt])
    return out


_WAVE = {}


def _wave_exec(pre):
    fn, post, max_dev, free = _WAVE["args"]
    ch = Chooser(pre)
    try:
        res = fn(ch)
    except Pruned as e:
        res = e
    return post(ch, res), _alternatives(ch, len(pre), max_dev, free)


def explore_waves(fn, post, procs, max_dev=None, prefix=(), free=()):
    """The same set of executions as explore(), run wave by wave in a fork()ed process pool:
    a wave is the set of prefixes scheduled by the previous wave.  ``post(chooser, result)`` runs
    in the worker and returns a small picklable summary; yields the summaries (order unspecified)."""
    import multiprocessing as mp

    _WAVE["args"] = (fn, post, max_dev, tuple(free))
    wave = [list(prefix)]
    with mp.get_context("fork").Pool(procs) as pool:
        while wave:
            nxt = []
            for summary, alts in pool.imap_unordered(_wave_exec, wave, chunksize=max(1, min(16, len(wave) // (procs * 4) or 1))):
                nxt.extend(alts)
                yield summary
            wave = nxt


def explore_all(fn, **kw):
    return list(explore(fn, **kw))


# ---------------------------------------------------------------------------
# Lazily refined uniform draw
# ---------------------------------------------------------------------------


class UniformDraw:
    """A draw u ~ U[lo, hi) whose value is only refined by what the code does
    with it: comparisons against numbers and ``int(c / u)``.

    Each such operation is a choice point whose alternatives carry the exact
    conditional probabilities; afterwards the interval is narrowed.  Anything
    else (float(), arithmetic, numpy coercion) raises, so an untracked use
    stops the run instead of silently producing a wrong partition.

    Measure-zero boundaries: u is never *equal* to a threshold here; properties
    that talk about equality use explicit ``PointDraw`` probes instead.
    """

    __array_ufunc__ = None  # make numpy scalars defer to our reflected ops
    __array_priority__ = 1e9

    def __init__(self, chooser, label="u", lo=Fraction(0), hi=Fraction(1)):
        self.ch = chooser
        self.label = label
        self.lo = Fraction(lo)
        self.hi = Fraction(hi)

    # u < t  (and u <= t, identical up to measure zero)
    def _below(self, t, tag):
        t = _as_frac(t)
        if t <= self.lo:
            return False
        if t >= self.hi:
            return True
        p = (t - self.lo) / (self.hi - self.lo)
        c = self.ch.choose([p, 1 - p], f"{self.label}{tag}{float(t):.6g}")
        if c == 0:
            self.hi = t
            return True
        self.lo = t
        return False

    def __lt__(self, t):
        return self._below(t, "<")

    def __le__(self, t):
        return self._below(t, "<=")

    def __gt__(self, t):
        return not self._below(t, ">")

    def __ge__(self, t):
        return not self._below(t, ">=")

    def __rtruediv__(self, c):
        return _Quotient(c, self)

    def __float__(self):
        raise TypeError("UniformDraw used as a float: untracked use")

    def __index__(self):
        raise TypeError("UniformDraw used as an index: untracked use")

    def __bool__(self):
        raise TypeError("UniformDraw used as a bool: untracked use")

    def _bad(self, *a, **k):
        raise TypeError("UniformDraw: arithmetic other than c/u is untracked")

    __add__ = __radd__ = __sub__ = __rsub__ = __mul__ = __rmul__ = _bad
    __truediv__ = __neg__ = __abs__ = __pow__ = _bad

    def __repr__(self):
        return f"U[{float(self.lo):.4g},{float(self.hi):.4g})"


INT_CAP = [64]  # int(c/u) results >= INT_CAP[0] are merged into one branch


class _Quotient:
    """c / u for a UniformDraw u; only ``int()`` is supported."""

    __array_ufunc__ = None

    def __init__(self, c, u):
        self.c = _as_frac(c)
        self.u = u

    def __int__(self):
        c, u = self.c, self.u
        if c <= 0:
            raise TypeError("int(c/u) with c <= 0 is untracked")
        cap = INT_CAP[0]
        # k = floor(c/u); k == j  <=>  c/(j+1) < u <= c/j
        # possible j for u in [lo, hi): from floor(c/hi) (u just below hi)
        kmin = int(c / u.hi)  # floor for positive
        if c / u.hi == kmin and kmin > 0:
            # u < hi strictly → c/u > kmin exactly when c/hi integer: k >= kmin
            pass
        ks = []
        ws = []
        j = kmin
        width = u.hi - u.lo
        while j < cap:
            hi_j = min(u.hi, c / j) if j > 0 else u.hi
            lo_j = max(u.lo, c / (j + 1))
            if hi_j > lo_j:
                ks.append(j)
                ws.append((hi_j - lo_j) / width)
            if c / (j + 1) <= u.lo:
                break
            j += 1
        else:
            # everything below c/cap is merged: k >= cap
            hi_j = min(u.hi, c / cap)
            if hi_j > u.lo:
                ks.append(cap)
                ws.append((hi_j - u.lo) / width)
        idx = u.ch.choose(ws, f"int({float(c):.6g}/{u.label})")
        k = ks[idx]
        if k >= cap:
            u.hi = min(u.hi, c / cap)
        else:
            if k > 0:
                u.hi = min(u.hi, c / k)
            u.lo = max(u.lo, c / (k + 1))
        return k

    def __float__(self):
        raise TypeError("c/u used as a float: untracked use")


class PointDraw(float):
    """A fixed value standing in for a uniform draw (equality probes)."""


# ---------------------------------------------------------------------------
# Worklist closure
# ---------------------------------------------------------------------------


def closure(init, successors, key=lambda s: s, max_states=None):
    """Breadth-first closure.  ``successors(state)`` yields
    ``(label, next_state)``; states are deduplicated by ``key``.

    Returns dict(states=…, transitions=…, depth=…, capped=bool, order=[…]).
    """
    from collections import deque

    seen = {}
    order = []
    q = deque()
    for s in init:
        k = key(s)
        if k not in seen:
            seen[k] = 0
            order.append(s)
            q.append((s, 0))
    transitions = 0
    maxdepth = 0
    capped = False
    while q:
        s, d = q.popleft()
        for _label, nxt in successors(s):
            transitions += 1
            k = key(nxt)
            if k in seen:
                continue
            if max_states is not None and len(seen) >= max_states:
                capped = True
                continue
            seen[k] = d + 1
            maxdepth = max(maxdepth, d + 1)
            order.append(nxt)
            q.append((nxt, d + 1))
    return dict(
        states=len(seen),
        transitions=transitions,
        depth=maxdepth,
        capped=capped,
        order=order,
    )


def digest(obj):
    """Stable short digest of a JSON-able object."""
    s = json.dumps(obj, sort_keys=True, default=str)
    return hashlib.sha256(s.encode()).hexdigest()[:16]
