"""Reference TRR encoder (harness side), written from the format description:
magic 1993, version string 'GMX_trn_file', 13 header integers
(ir, e, box, vir, pres, top, sym, x, v, f sizes, natoms, step, nre), time and
lambda as real, then box (3x3), x, v, f as real; big or little endian, single
or double precision."""
import struct

import numpy as np

VERSION = b"GMX_trn_file"


def encode_frame(x, v=None, f=None, box=None, step=0, time=0.0, lam=0.0, endian=">", double=False):
    x = np.asarray(x, dtype=float)
    natoms = x.shape[0]
    real = "d" if double else "f"
    rs = 8 if double else 4
    box_size = 9 * rs if box is not None else 0
    x_size = natoms * 3 * rs
    v_size = natoms * 3 * rs if v is not None else 0
    f_size = natoms * 3 * rs if f is not None else 0
    out = struct.pack(f"{endian}i", 1993)
    out += struct.pack(f"{endian}2i", len(VERSION) + 1, len(VERSION))
    out += struct.pack(f"{endian}{len(VERSION)}s", VERSION)
    out += struct.pack(f"{endian}13i", 0, 0, box_size, 0, 0, 0, 0, x_size, v_size, f_size, natoms, step, 0)
    out += struct.pack(f"{endian}2{real}", time, lam)
    header_len = len(out)
    if box is not None:
        out += struct.pack(f"{endian}9{real}", *np.asarray(box, dtype=float).reshape(9))
    for arr in (x, v, f):
        if arr is not None:
            out += struct.pack(f"{endian}{natoms * 3}{real}", *np.asarray(arr, dtype=float).reshape(natoms * 3))
    return out, header_len


def frames(natoms, nframes, endian=">", double=False, with_v=True, with_f=False, seed=1):
    """Deterministic frames with values exactly representable in single precision."""
    out = []
    raw = []
    for k in range(nframes):
        base = np.arange(natoms * 3, dtype=float).reshape(natoms, 3)
        x = (base * 0.25 + k * 0.5) % 64.0 - 8.0
        v = (base * 0.125 - k * 0.25) % 16.0 - 4.0 if with_v else None
        # with_f == 'alternate': forces on every second frame only (nstfout = 2 * nstxout): frames differ in size
        f = (base * 0.5 + k) % 32.0 if (with_f is True or (with_f == "alternate" and k % 2 == 1)) else None
        # triclinic: a non-symmetric matrix, so that a transposed decode is visible
        box = np.array([[4.0 + k, 0.0, 0.0], [0.5, 5.0 + 0.5 * k, 0.0], [-0.25, 1.125, 6.0]])
        b, hl = encode_frame(x, v, f, box, step=k * 10, time=0.5 * k, endian=endian, double=double)
        out.append(b)
        raw.append(dict(x=x, v=v, f=f, box=box, header_len=hl))
    return out, raw
