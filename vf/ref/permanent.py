"""Reference: swap probabilities from exact permanents (Fractions)."""

from __future__ import annotations

from fractions import Fraction
from functools import lru_cache


def permanent(rows):
    """Permanent of a square matrix given as tuple of tuples (ints/Fractions);
    DP over column subsets, O(n 2^n)."""
    n = len(rows)
    if n == 0:
        return 1
    dp = {0: 1}
    for i in range(n):
        nd = {}
        r = rows[i]
        for mask, val in dp.items():
            if not val:
                continue
            for j in range(n):
                if r[j] and not mask & (1 << j):
                    m2 = mask | (1 << j)
                    nd[m2] = nd.get(m2, 0) + val * r[j]
        dp = nd
    return dp.get((1 << n) - 1, 0)


def _minor(rows, i, j):
    return tuple(tuple(v for c, v in enumerate(r) if c != j) for k, r in enumerate(rows) if k != i)


@lru_cache(maxsize=200000)
def prob_matrix_cached(rows):
    n = len(rows)
    per = permanent(rows)
    if per == 0:
        return None
    out = []
    for i in range(n):
        row = []
        for j in range(n):
            if rows[i][j] == 0:
                row.append(Fraction(0))
            else:
                row.append(Fraction(rows[i][j] * permanent(_minor(rows, i, j)), per))
        out.append(tuple(row))
    return tuple(out)


def swap_probabilities(W, locks):
    """P on the idle block, zero on busy rows/columns.

    W: n x n (list of lists of int/Fraction), locks: 0/1 per index (row k and
    column k are busy together).  Returns n x n tuple of Fractions or None if
    the idle block has permanent zero (no assignment exists)."""
    n = len(W)
    idle = [k for k in range(n) if not locks[k]]
    sub = tuple(tuple(W[i][j] for j in idle) for i in idle)
    P = prob_matrix_cached(sub)
    if P is None:
        return None
    out = [[Fraction(0)] * n for _ in range(n)]
    for a, i in enumerate(idle):
        for b, j in enumerate(idle):
            out[i][j] = P[a][b]
    return tuple(tuple(r) for r in out)


def has_perfect_matching(W, locks):
    n = len(W)
    idle = [k for k in range(n) if not locks[k]]
    match = {}

    def try_row(i, seen):
        for j in idle:
            if W[i][j] and j not in seen:
                seen.add(j)
                if j not in match or try_row(match[j], seen):
                    match[j] = i
                    return True
        return False

    return all(try_row(i, set()) for i in idle)
