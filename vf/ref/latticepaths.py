"""Reference model: exact path ensembles of the lattice walk (boring on purpose).

Everything is derived from the definitions, with Fractions:
ensemble membership, equilibrium path weights, wire-fencing weights by explicit
sub-path decomposition, crossing probabilities of the length-truncated space.
"""

from __future__ import annotations

from fractions import Fraction
from functools import lru_cache


def enumerate_paths(dyn, kind, maxlen, i=0, minlen=3):
    """All paths of the ensemble with length <= maxlen.

    kind 'minus': start right of lambda_0 (site 1), then sites 0 only, end at
                  site 1 again:  (1, 0, ..., 0, 1)
    kind 'plus' : ensemble [i+] (i=0 is [0+]): start at 0, interior sites in
                  1..B-1, end at 0 or B, and max site >= i+1.
    Returns list of site tuples.
    """
    B = dyn.B
    out = []
    if kind == "minus":
        for L in range(max(3, minlen), maxlen + 1):
            out.append((1,) + (0,) * (L - 2) + (1,))
        return out

    def rec(p):
        x = p[-1]
        if len(p) > 1 and (x == 0 or x == B):
            if len(p) >= minlen and max(p) >= i + 1:
                out.append(tuple(p))
            return
        if len(p) == maxlen:
            return
        for y in (x + 1, x - 1):
            if y < 0:
                continue
            if len(p) == 1 and y != 1:
                continue
            if dyn.T(x, y) > 0:
                rec(p + [y])

    rec([0])
    return out


def member(dyn, kind, sites, i=0, maxlen=None, lambda_minus_one_site=None):
    """Ensemble membership straight from the property text."""
    B = dyn.B
    if maxlen is not None and len(sites) > maxlen:
        return False
    if len(sites) < 3:
        return False
    for a, b in zip(sites[:-1], sites[1:]):
        if dyn.T(a, b) == 0:
            return False
    if kind == "minus":
        return sites[0] == 1 and sites[-1] == 1 and all(x == 0 for x in sites[1:-1])
    ok = sites[0] == 0 and sites[-1] in (0, B) and all(0 < x < B for x in sites[1:-1])
    return ok and max(sites) >= i + 1


def wf_subpaths(order, left, right):
    """Reference decomposition for the wire-fencing weight.

    A counted sub-path is a maximal run of frames with left <= op < right that
    has a frame before it and a frame after it (entry and exit), whose entry
    side/exit side pair is not right-right.  Returns list of
    (entry_index, exit_index, n_inside) with entry/exit the outside frames.
    """
    n = len(order)
    inside = [left <= v < right for v in order]
    out = []
    k = 0
    while k < n:
        if not inside[k]:
            k += 1
            continue
        a = k
        while k < n and inside[k]:
            k += 1
        b = k  # first index after the run
        if a == 0 or b == n:
            continue  # no entry or no exit frame
        ent = "L" if order[a - 1] < left else "R"
        ext = "L" if order[b] < left else "R"
        if ent == "R" and ext == "R":
            continue
        out.append((a - 1, b, b - a))
    return out


def wf_weight(order, left, right):
    return sum(s[2] for s in wf_subpaths(order, left, right))


def ha_weight(order, left_outer, left, right):
    """compute_weight reference: WF frames, doubled when start side != end side
    (sides w.r.t. the outer interfaces left_outer / right)."""
    w = wf_weight(order, left, right)

    def side(v):
        if v <= left_outer:
            return "L"
        if v >= right:
            return "R"
        return None

    if side(order[0]) != side(order[-1]):
        w *= 2
    return w


def crossing_probabilities(dyn, maxlen):
    """P(path in [0+] truncated at maxlen reaches site k+1 | reaches site k)."""
    paths = enumerate_paths(dyn, "plus", maxlen, i=0)
    tot = {}
    for p in paths:
        w = dyn.path_weight(p)
        m = max(p)
        for k in range(1, m + 1):
            tot[k] = tot.get(k, Fraction(0)) + w
    out = {}
    for k in range(1, dyn.B):
        if tot.get(k):
            out[k] = tot.get(k + 1, Fraction(0)) / tot[k]
    return out


def tail_mass(dyn, kind, maxlen, i=0, shell=1):
    """Equilibrium mass of paths with length in (maxlen-shell, maxlen] relative
    to all paths with length <= maxlen."""
    paths = enumerate_paths(dyn, kind, maxlen, i=i)
    tot = sum(dyn.path_weight(p) for p in paths)
    tl = sum(dyn.path_weight(p) for p in paths if len(p) > maxlen - shell)
    return tl / tot if tot else Fraction(0)
