"""A numpy Generator subclass whose draws are explorer choice points.

It *is* a ``numpy.random.Generator`` (so ``spawn_rng``, ``bit_generator.state``
and ``write_toml`` keep working); ``random/integers/choice/normal`` are routed
to the chooser installed with ``use(chooser)``.  ``spawn_rng`` builds children
with ``type(rgen)(bitgen)``, so children are scripted as well and share the
module-level chooser.
"""
from __future__ import annotations

from fractions import Fraction

import numpy as np

from vf.explore import UniformDraw

_CURRENT = [None]
_NORMAL_HOOK = [None]
_FORCED = [None]
_STD_NORMAL_HOOK = [None]


def force_random(values):
    """Next calls of random() return these fixed floats (equality probes)."""
    _FORCED[0] = list(values) if values else None


def use(chooser):
    _CURRENT[0] = chooser


def current():
    ch = _CURRENT[0]
    if ch is None:
        raise RuntimeError("ScriptedGenerator used without an installed chooser")
    return ch


class ScriptedGenerator(np.random.Generator):
    """Explorer-driven generator."""

    tag = "rng"

    def random(self, size=None, *a, **k):
        if size is not None or a or k:
            raise TypeError("ScriptedGenerator.random: vectorised draws are untracked")
        if _FORCED[0]:
            return float(_FORCED[0].pop(0))
        return UniformDraw(current(), label=f"{self.tag}.u")

    def integers(self, low, high=None, size=None, *a, **k):
        if size is not None or a or k:
            raise TypeError("ScriptedGenerator.integers: vectorised draws are untracked")
        if high is None:
            low, high = 0, low
        low, high = int(low), int(high)
        n = high - low
        if n <= 0:
            raise ValueError("low >= high")
        return low + current().choose(n, f"{self.tag}.int[{low},{high})")

    def choice(self, a, size=None, replace=True, p=None, *x, **k):
        if size is not None or x or k:
            raise TypeError("ScriptedGenerator.choice: vectorised draws are untracked")
        if isinstance(a, (int, np.integer)):
            n = int(a)
            vals = None
        else:
            vals = list(a)
            n = len(vals)
        if p is None:
            idx = current().choose(n, f"{self.tag}.choice{n}")
        else:
            w = [float(x) for x in p]
            if len(w) != n:
                raise ValueError("a and p must have same size")
            if abs(sum(w) - 1.0) > 1e-8:
                raise ValueError("probabilities do not sum to 1")
            if any(x < 0 for x in w):
                raise ValueError("probabilities are not non-negative")
            idx = current().choose(w, f"{self.tag}.choice{n}p")
        return idx if vals is None else vals[idx]

    def normal(self, loc=0.0, scale=1.0, size=None):
        hook = _NORMAL_HOOK[0]
        if hook is None:
            raise TypeError("ScriptedGenerator.normal without a hook")
        return hook(loc, scale, size)


    def standard_normal(self, size=None, *a, **k):
        hook = _STD_NORMAL_HOOK[0]
        if hook is None:
            raise TypeError("ScriptedGenerator.standard_normal without a hook")
        return hook(size)


def make(tag="rng", seed=0):
    g = ScriptedGenerator(np.random.PCG64(seed))
    return g


def frac(x):
    return x if isinstance(x, Fraction) else Fraction(x)
