"""Turn a hang of the code under test into a verdict."""
import signal


class Hang(Exception):
    pass


class limit:
    """with limit(seconds): ...  -> raises Hang if the block runs longer (main thread only)."""

    def __init__(self, seconds):
        self.seconds = seconds

    def _handler(self, signum, frame):
        raise Hang(f"no progress within {self.seconds}s of wall time (busy loop?)")

    def __enter__(self):
        self.old = signal.signal(signal.SIGALRM, self._handler)
        signal.setitimer(signal.ITIMER_REAL, self.seconds)
        return self

    def __exit__(self, *a):
        signal.setitimer(signal.ITIMER_REAL, 0)
        signal.signal(signal.SIGALRM, self.old)
        return False
