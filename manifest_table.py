chk("C13", "model_checking",
    "Text readers (xyz_reader, lammpstrj_reader): closure over (reader position, frames delivered) x every visible byte length for each trajectory of a small alphabet, so all cut sequences of any length at byte granularity are covered on the real reader functions. TRR (GromacsRunner.get_gromacs_frames): a fake mdrun whose file grows at byte granularity, both byte orders x both precisions, every single intermediate size and pairs of sizes (stride + structural boundaries +-1); frames yielded must be the written ones, each once, in order, never before complete; hangs are verdicts (watchdog).",
    "Trusted: the harness-side writers/encoder emit the formats CP2K/LAMMPS/GROMACS emit; a text frame whose values are complete but whose final newline is not yet visible is don't-care.",
    "explicit-state closure on the implementation", "DESIGN.md 4/C13")
chk("C09", "model_checking",
    "All executions of the real shoot / wire_fencing / retis_swap_zero on the lattice from every old path up to a length bound (every shooting index, every cell of every uniform draw, every walk step sequence), each judged for membership, time order, weight, shooting point and an untouched old path; the exact kernel is compared with the reference kernel of 'accept iff u <= n_old/n_new' as an equality of rationals, plus explicit equality probes.",
    "Trusted: the lattice walk stands for MD (reversible birth-death chain, identity velocity kick); int(c/u) branches above maxlength are merged; wf 'contains the shooting point' is not checked.",
    "stateless exhaustive exploration with exact probabilities", "DESIGN.md 4/C09")
chk("C10", "exploration",
    "Exhaustive enumeration of all order-parameter sequences up to length 6 (quick) / 7 (thorough) over a 9-symbol alphabet placed at and between the interfaces, for four interface layouts, against a reference sub-path decomposition; the selection law enumerates every cell of the real code's uniform draw.",
    "Trusted: reference decomposition written from the property text; compute_weight compared on complete paths only.",
    "exhaustive input enumeration + exact draw-cell enumeration", "DESIGN.md 4/C10")
chk("C11", "model_checking",
    "All ([0-],[0+]) lattice path pairs up to a length with all outcomes of the real retis_swap_zero (junction identity, membership, statuses); every colour pair of an exactly reversible deterministic toy dynamics for the double-swap law; every cell of the QuanTIS acceptance draw against min(1,exp(b0 dV0 - b1 dV1)) from potential tables; lambda_-1 early rejection with a propagate counter.",
    "Trusted: toy engines (lattice walk, coloured ballistic map F=RoS) behind the real EngineBase.add_to_path. Known finding: double swap at L == maxlength.",
    "stateless exhaustive exploration with exact probabilities", "DESIGN.md 4/C11")
chk("C01", "model_checking",
    "Exact probabilistic model checking: (a) kernels of every move obtained by summing the exact probabilities of all executions of the real code on the lattice; global balance and closedness as equalities of rationals on each move's own truncated space; (b) [when built] the sampler's joint Markov chain from every outcome of the real scheduler step.",
    "Trusted: lattice model; truncated spaces as the code defines them; outcome-independent completion schedules only.",
    "exhaustive execution enumeration with exact probabilities (probabilistic model checking)", "DESIGN.md 4/C01")
chk("C02", "exploration",
    "Every weight matrix of the reachable family up to a size (0/1 staircase rows in every order up to 6 plus-ensembles in the thorough tier, high-acceptance rows from weight alphabets incl. rescaled rows, every lock subset) is fed to the real inf_retis and compared with Fraction permanents; code paths are cross-compared; in every state of the L1 scheduler closure the cached prob must equal the oracle.",
    "Trusted: permanent oracle (subset DP over Fractions). Not decided: blocks > 12 (random_prob is Monte Carlo by construction) and weights outside the alphabets.",
    "exhaustive input enumeration + explicit-state closure", "DESIGN.md 4/C02")
chk("C03", "model_checking",
    "Breadth-first closure of the scheduler state machine on the real REPEX_state (real pick/pick_lock/prep_md_items/treat_output/assign_engines) for 2..4 ensembles (5 thorough), workers 1..n-1, both engine layouts, every completion order, every abstract outcome and every outcome of the real pick; mutual-exclusion invariants at every pick and in every state; exceptions raised by the code are verdicts.",
    "Trusted: abstract moves (REJ / ACC with a real lattice path per reachable maximum), canonicalisation drops path numbers, counters, frac and RNG state; snapshots (deepcopy) are cross-validated against from-scratch replays.",
    "explicit-state BFS on the implementation (snapshot + replay-validated)", "DESIGN.md 4/C03")
chk("C04", "model_checking",
    "On every transition of the same closure: per-step increment law (column sums 1/0, support on idle non-zero-weight paths), rows written exactly for the replaced paths with their accumulated weights, and the cumulative law rows + live weights (re-read from the restart file just written) = idle steps, carried along every explored history.",
    "Trusted: as C03; data rows parsed from the data file, live weights from restart.toml.",
    "explicit-state BFS on the implementation with per-transition and per-history oracles", "DESIGN.md 4/C04")
chk("C05", "model_checking",
    "Same closure plus wire-fencing rows and caps: perfect matching of the idle block (independent bipartite matching), finite doubly-stochastic P, non-zero diagonal for idle paths after every step, bounded sort_trajstate, distinct never-reused path numbers, and the restart file written at that moment loads through the real setup_config / REPEX_state / load_paths.",
    "Trusted: as C03; restart loading uses the in-memory paths the restart file names (on-disk loading is C06/C08).",
    "explicit-state BFS on the implementation", "DESIGN.md 4/C05")
chk("C07", "model_checking",
    "Stateless exploration by replay of the real REPEX_state with real files and process restarts: workers 1..3, every completion order and every restart placement (at most two) exhaustively, outcomes and picks up to a deviation bound, seeds {0,1,7,+1}; every issued job's seed-sequence identity and initial generator state are compared pairwise, with the scheduler's stream, and with the restart-free stream of the same job ordinal. Engines: every engine class is run with equal/different job streams under different global RNG states.",
    "Trusted: a lost job and its re-issue are one job; post-restart scheduler draws are answered as before the crash (restored generator state). Deviation-bounded (reported). Known findings: multi-worker restart stream collisions.",
    "stateless deviation-bounded exploration on the implementation", "DESIGN.md 4/C07")
chk("C15", "exploration",
    "Full products of small domains against a list model: segment pairs of length 0..4 x maxlen x overlap for paste_paths, all velocity-flag patterns up to length 5 for reverse (incl. a velocity-dependent order function), aliasing after copy/+=/reverse for every frame field, all operation sequences of depth 3 (4 thorough) over a 15-op alphabet, and classification of all order sequences up to length 5 (6) over a 7-symbol alphabet for four interface triples.",
    "Trusted: list model written from the property text. paste_paths sharing frames with its inputs is by design and not flagged.",
    "exhaustive small-input enumeration against a reference model", "DESIGN.md 4/C15")
chk("C20", "exploration",
    "All relative vectors on a half-integer grid x boxes x both box forms x all translations from a grid, 27 image shifts per atom, the 24 cube rotations and velocity reversal for Distance/Distancevel; geometry tables for Dihedral/Puckering under the same groups; pbc_dist_coordinate on a 1-D sweep; the system is compared before/after every calculate().",
    "Trusted: exact minimum-image ties are excluded for the sign-sensitive Distancevel; rotations restricted to the cube group (exact on the grid).",
    "exhaustive enumeration over finite symmetry groups", "DESIGN.md 4/C20")
chk("C18", "exploration",
    "Exhaustive product lattice (about 60 000 configurations) over interfaces x workers x moves length/pattern x interface_cap x ensemble_engines x lambda_-1 x quantis through the real setup_config/check_config against a validity predicate written from the property sentence (invalid => TOMLConfigError, never another exception); every accepted configuration is initialised through the real setup_internal with lattice paths, the initial picks and one completed step per worker, and the restart file it wrote must be a fixed point of setup_config.",
    "Trusted: the validity predicate; only 'invalid => rejected' and 'accepted => initialises' are demanded (rejecting more is allowed).",
    "exhaustive configuration enumeration against a reference predicate", "DESIGN.md 4/C18")
chk("C06", "fault_enumeration",
    "Whole-program runs (real setup_config -> scheduler -> run_md, lattice plug-in engine and the repository's TurtleMD double well) through an inline runner: straight runs of every length 1..N, EVERY restart pair k<k' compared with the straight run of k' steps (data file bytes, restart.toml minus restarted_from, order files of live paths) for seeds {0,1,12345,+1} and sh/wf/cap configurations, repeat runs, runs in separate processes under three PYTHONHASHSEEDs; multi-worker: every (stop point, completion order) -> the restart file records exactly the in-flight jobs and they are re-issued first.",
    "Trusted: inline runner stands for the process pool; allowmaxlength=true; older load/ directories and traj.txt file names (pid, counter) are not compared.",
    "exhaustive enumeration of restart split points and completion orders on the real program", "DESIGN.md 4/C06")
chk("C17", "model_checking",
    "(a) the real scheduler() with the lattice engine: all (workers 1..3, steps >= workers) x every completion order, then every (stop point, new step count) restart x every completion order: moves completed, cstep, locked, futures consumed exactly once, runner stopped once; (b) the real aiorunner + future_list on a hand-stepped virtual asyncio loop (fake executor, no threads/processes): workers 1..2, 1..3 units each succeeding or raising, all interleavings of worker wake-ups, executor completions in any order, submissions, polls and stop() up to 2 (quick) / 3 (thorough) deviations from a canonical fair schedule: each unit executed once, its result or exception delivered once, clean shutdown.",
    "Trusted: inline runner in part (a); in part (b) main-thread API calls are atomic events between single event-loop handle executions (bytecode-level races between the two real threads are not explored); deviation-bounded (reported).",
    "exhaustive schedule enumeration on the implementation", "DESIGN.md 4/C17")
chk("C14", "model_checking",
    "Stateless exploration by replay of the real REPEX_state with the real PathStorage on real files: every accept/reject outcome and every completion order up to depth n_ens+3 (one worker) / 4-6 (two workers), pick outcomes up to a deviation bound, x delete_old x delete_old_all x keep_traj_fnames; after every step every live path is re-loaded with the real load_path and compared frame by frame; initial paths are hashed; a FIFO reference model bounds when a replaced path's files may disappear.",
    "Trusted: accepted paths are written by the harness (two trajectory files, reversed frames, optional energies/aux files). Deviation-bounded in the pick outcomes (reported).",
    "stateless deviation-bounded exploration on the implementation with a file-ownership reference model", "DESIGN.md 4/C14")
chk("C08", "fault_enumeration",
    "Fault enumeration on the real REPEX_state + real PathStorage with real files under an interposed file system: for the last step of every scenario of up to 3 steps (outcomes and completion orders exhaustive, one pick deviation; delete_old variants; 1-2 workers; also after an earlier restart; a 6-step scenario that fires the deletion lag) the main process is killed after every counted effect (open-for-write, write, move, remove, rmdir, mkdir) and at torn prefixes of every write; the tree must restart through the real setup_config/setup_internal, live paths must have their files and non-zero weight, recorded in-flight jobs are re-issued first, and after replacing every live path once more every replaced path has exactly one data row.",
    "Trusted: unbuffered-write crash model (plus torn prefixes); accepted paths written by the harness. Quick tier crashes only 4 occurrences of an effect repeated within a step (reported as a cap); thorough crashes after every effect.",
    "exhaustive crash-point and torn-write enumeration on the implementation", "DESIGN.md 4/C08")
chk("C12", "model_checking",
    "External engines (LAMMPS, CP2K, GROMACS) built from the example inputs run against fake programs with a free-flight toy dynamics and per-frame boxes: every schedule of (one frame | two frames | stay | finish | die with rc != 0) at every poll (LAMMPS complete; CP2K with separate pos/vel progress and GROMACS up to a deviation bound in the quick tier), both time directions; in-process engines (TurtleMD, ASE Langevin/VelocityVerlet, ballistic file plug-in) over a grid of subcycles x maxlen x interfaces x direction x start points. Oracle: stored order of frame k = order recomputed from frame k as written / as referenced, stop rule, success flag, frame references, program stopped, failure raises unless the complete path was delivered, deterministic integrators retrace.",
    "Trusted: fake writers emit the real programs' formats; toy dynamics (free flight) stands for MD; frames of in-process engines are read back through the engine's own codecs. AMS and GROMACS' own velocity generation are not covered.",
    "exhaustive schedule enumeration of fake external processes against the real engines", "DESIGN.md 4/C12")
chk("C16", "exploration",
    "For CP2K, LAMMPS, TurtleMD, GROMACS (infretis_genvel) and ASE, at T in {1, 300} and zero_momentum on/off, the engine's stream is a scripted generator that returns chosen z-arrays (all 4^6 arrays over {-1,0,1,2} for two atoms in the thorough tier): the written velocity must satisfy m v^2 = z^2 k_B T component by component in SI units with constants from an independent table, positions/box unchanged, source frame object and file untouched (also through prepare_shooting_point), total momentum zero and relative velocities preserved with zero_momentum, reported kin_new/dek equal to a recomputation from the file, same stream => same file.",
    "Trusted: the statistical clause is decided as the exact stream-to-file map (Gaussianity follows from a standard normal stream); masses from the engines' tables; GROMACS' own velocity generation and AMS not covered.",
    "exhaustive enumeration of scripted draws (exact map instead of sampled moments)", "DESIGN.md 4/C16")
