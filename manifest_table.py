chk("C13", "model_checking",
    "Closure over (reader position, frames delivered) x every visible byte length for each trajectory of a small alphabet: all cut sequences of any length at byte granularity are covered for the text readers, on the real reader functions.",
    "Trusted: the harness-side writers emit the formats CP2K/LAMMPS emit; a frame whose values are complete but whose final newline is not yet visible is don't-care.",
    "explicit-state closure on the implementation", "DESIGN.md 4/C13")
chk("C09", "model_checking",
    "All executions of the real shoot / wire_fencing / retis_swap_zero on the lattice from every old path up to a length bound (every shooting index, every cell of every uniform draw, every walk step sequence), each judged for membership, time order, weight, shooting point and an untouched old path; the exact kernel is compared with the reference kernel of 'accept iff u <= n_old/n_new' as an equality of rationals, plus explicit equality probes.",
    "Trusted: the lattice walk stands for MD (reversible birth-death chain, identity velocity kick); int(c/u) branches above maxlength are merged; wf 'contains the shooting point' is not checked.",
    "stateless exhaustive exploration with exact probabilities", "DESIGN.md 4/C09")
chk("C10", "exploration",
    "Exhaustive enumeration of all order-parameter sequences up to length 6 (quick) / 7 (thorough) over a 9-symbol alphabet placed at and between the interfaces, for four interface layouts, against a reference sub-path decomposition; the selection law enumerates every cell of the real code's uniform draw.",
    "Trusted: reference decomposition written from the property text; compute_weight compared on complete paths only.",
    "exhaustive input enumeration + exact draw-cell enumeration", "DESIGN.md 4/C10")
chk("C11", "model_checking",
    "All ([0-],[0+]) lattice path pairs up to a length with all outcomes of the real retis_swap_zero (junction identity, membership, statuses); every colour pair of an exactly reversible deterministic toy dynamics for the double-swap law; every cell of the QuanTIS acceptance draw against min(1,exp(b0 dV0 - b1 dV1)) from potential tables; lambda_-1 early rejection with a propagate counter.",
    "Trusted: toy engines (lattice walk, coloured ballistic map F=RoS) behind the real EngineBase.add_to_path. Known finding: double swap at L == maxlength.",
    "stateless exhaustive exploration with exact probabilities", "DESIGN.md 4/C11")
chk("C01", "model_checking",
    "Exact probabilistic model checking: (a) kernels of every move obtained by summing the exact probabilities of all executions of the real code on the lattice; global balance and closedness as equalities of rationals on each move's own truncated space; (b) [when built] the sampler's joint Markov chain from every outcome of the real scheduler step.",
    "Trusted: lattice model; truncated spaces as the code defines them; outcome-independent completion schedules only.",
    "exhaustive execution enumeration with exact probabilities (probabilistic model checking)", "DESIGN.md 4/C01")
