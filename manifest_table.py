chk("C13", "model_checking",
    "Closure over (reader position, frames delivered) x every visible byte length for each trajectory of a small alphabet: all cut sequences of any length at byte granularity are covered for the text readers, on the real reader functions.",
    "Trusted: the harness-side writers emit the formats CP2K/LAMMPS emit; a frame whose values are complete but whose final newline is not yet visible is don't-care.",
    "explicit-state closure on the implementation", "DESIGN.md 4/C13")
