"""C07 part 2: every random number drawn in-process for a move comes from the
job's streams, in every engine class.

For each engine: modify_velocities (and, for in-process engines, a short
propagate) is run with (i) the same job stream but different global
numpy.random / random state -> outputs must be identical; (ii) two different
job streams and the same global state -> outputs must differ.
"""
from __future__ import annotations

import os
import random

import numpy as np

from vf import engines, scratch

CASES = [
    ("turtlemd", {}, "genvel"), ("lammps", {}, "genvel"), ("gromacs", {}, "genvel"), ("cp2k", {}, "genvel"),
    ("ase", {"integrator": "langevin"}, "genvel"),
    ("turtlemd", {}, "propagate"), ("ase", {"integrator": "langevin"}, "propagate"),
    ("ase", {"integrator": "velocityverlet"}, "genvel"),
]


def one(name, kw, what, stream_seed, global_seed, zero_momentum=False, warmup_stream=None):
    from infretis.classes.path import Path
    from infretis.classes.system import System

    eng, conf = engines.BUILDERS[name](**kw)
    if warmup_stream is not None:
        # an earlier job on the SAME engine object (engines live as long as the worker)
        _job(eng, conf, what, warmup_stream, global_seed, zero_momentum)
    return _job(eng, conf, what, stream_seed, global_seed, zero_momentum)


def _job(eng, conf, what, stream_seed, global_seed, zero_momentum):
    from infretis.classes.path import Path
    from infretis.classes.system import System

    name = eng.name if hasattr(eng, "name") and isinstance(eng.name, str) else ""
    wd = scratch.mkdtemp("c07e")
    try:
        eng.exe_dir = wd
        eng.rgen = np.random.default_rng(np.random.SeedSequence(stream_seed, spawn_key=(3, 0, 0)))
        np.random.seed(global_seed)
        random.seed(global_seed)
        s = System()
        s.set_pos((conf, 0))
        dek, kin = eng.modify_velocities(s, {"zero_momentum": zero_momentum})
        pos, vel, box = engines.read_vel(eng, s.config[0])
        out = [np.round(vel, 12).tolist(), float(kin)]
        if what == "propagate":
            # shoot a few frames from the generated point
            s.order = eng.calculate_order(s) if eng.order_function is not None else [0.0]
            from infretis.classes.orderparameter import Distance

            eng.order_function = Distance((0, 1), periodic=False)
            p = Path(maxlen=4)
            ens = {"interfaces": (-1e9, 0.0, 1e9), "ens_name": "001", "tis_set": {}}
            eng.propagate(p, ens, s, reverse=False)
            out.append([float(pp.order[0]) for pp in p.phasepoints])
            # last configuration of the trajectory
            last = p.phasepoints[-1].config
            if name == "ase":
                from ase.io.trajectory import Trajectory

                t = Trajectory(last[0])
                out.append(np.round(t[last[1]].get_velocities(), 12).tolist())
                t.close()
        return out
    finally:
        scratch.rmtree(wd)


def lammps_seeds(streams, global_seed):
    """The seeds LAMMPS is handed for its stochastic integrator: one engine object, one job per entry of
    ``streams`` (each with its own engine stream, a backward and a forward propagation), against the fake
    LAMMPS of vf/fakeproc (default schedule).  Returns the seeds found in the run inputs, job by job."""
    import infretis.classes.engines.lammps as lmod
    from infretis.classes.orderparameter import Distance
    from infretis.classes.path import Path
    from infretis.classes.system import System
    from vf import fakeproc
    from vf.explore import Chooser

    wd = scratch.mkdtemp("c07l")
    out = []
    try:
        eng, _ = engines.lammps()
        eng.exe_dir = wd
        eng.order_function = Distance((0, 1), periodic=True)
        eng.subcycles = 1
        eng.timestep = 1.0
        conf = os.path.join(wd, "init.lammpstrj")
        lmod.write_lammpstrj(conf, np.array([[1, 1], [2, 1]]), np.array([[1.0, 0.5, 0.25], [2.0, 0.5, 0.25]]),
                             np.array([[0.0, 0.0, 0.0], [0.5, 0.0, 0.0]]), np.array([[0.0, 20.0]] * 3))
        for st in streams:
            eng.rgen = np.random.default_rng(np.random.SeedSequence(st, spawn_key=(3, 0, 0)))
            np.random.seed(global_seed)
            random.seed(global_seed)
            seeds = []
            for reverse in (True, False):
                progs = []
                world = fakeproc.World(Chooser([]), lambda cmd, cwd: fakeproc.LammpsProgram(cmd, cwd, record=progs))
                world.patch(lmod)
                try:
                    s = System()
                    s.set_pos((conf, 0))
                    s.vel_rev = False
                    eng.propagate(Path(maxlen=4), {"interfaces": (0.2, 0.2, 9.0), "ens_name": "001", "tis_set": {}}, s, reverse=reverse)
                finally:
                    world.unpatch()
                seeds += [p.seed for p in progs]
            out.append(seeds)
        return out
    finally:
        scratch.rmtree(wd)


def lammps_part(ctx):
    """Seeds handed to the external stochastic integrator come from the job's engine stream."""
    a = lammps_seeds([11], 1)
    b = lammps_seeds([11], 2)
    c = lammps_seeds([12], 1)
    d = lammps_seeds([12, 11], 1)
    rp = dict(kind="lammps-seed")
    ctx.distinct(("engine", "lammps:integrator-seed", a == b, a != c, d[1] == a[0]))
    if not a[0] or any(x is None for x in a[0]):
        ctx.violation("engine:lammps:integrator-seed:none-handed-over", f"no seed found in the LAMMPS run input: {a}", rp)
        return 4
    if a != b:
        ctx.violation("engine:lammps:integrator-seed:depends-on-global-rng", f"same job stream, different global state: seeds {a} vs {b}", rp)
    elif a == c:
        ctx.violation("engine:lammps:integrator-seed:ignores-job-stream", f"two different job streams give the same integrator seeds {a}", rp)
    elif d[1] != a[0]:
        ctx.violation("engine:lammps:integrator-seed:depends-on-previous-job",
                      f"second job on the same engine object gets seeds {d[1]}, a fresh engine with the same stream gets {a[0]} (first job had {d[0]})", rp)
    return 4


def run_part(ctx):
    n = lammps_part(ctx)
    for name, kw, what in CASES:
        tag = f"{name}{'-' + kw['integrator'] if kw else ''}:{what}"
        for zm in (False, True):
            a = one(name, kw, what, 11, 1, zm)
            b = one(name, kw, what, 11, 2, zm)
            c = one(name, kw, what, 12, 1, zm)
            n += 3
            ctx.distinct(("engine", tag, zm, a == b, a != c))
            if a != b:
                ctx.violation(f"engine:{tag}:depends-on-global-rng",
                              f"{tag} zero_momentum={zm}: same job stream, different global numpy/random state -> different output",
                              dict(kind="engine", name=name, kw=kw, what=what, zm=zm))
            elif a == c:
                ctx.violation(f"engine:{tag}:ignores-job-stream",
                              f"{tag} zero_momentum={zm}: two different job streams give identical output",
                              dict(kind="engine", name=name, kw=kw, what=what, zm=zm))
            # successive jobs on one engine object: the second job's output is a function of its own stream only
            d = one(name, kw, what, 11, 1, zm, warmup_stream=12)
            n += 1
            if d != a:
                ctx.violation(f"engine:{tag}:depends-on-previous-job",
                              f"{tag} zero_momentum={zm}: a job's output changes when another job ran before it on the same engine object",
                              dict(kind="engine", name=name, kw=kw, what=what, zm=zm))
    ctx.set("engine_runs", n)
    ctx.coverage["evaluations"] = ctx.coverage.get("evaluations", 0) + n
    ctx.assume("engine part: LAMMPS/CP2K/GROMACS propagate (external programs) is covered by C12's fake processes; GROMACS' own velocity generation is outside the property")


def replay(data):
    if data.get("kind") == "lammps-seed":
        class C:
            def __init__(self):
                self.v = []

            def violation(self, s, m, r):
                self.v.append((s, m))

            def distinct(self, *_):
                pass
        c = C()
        lammps_part(c)
        return c.v
    a = one(data["name"], data["kw"], data["what"], 11, 1, data["zm"])
    b = one(data["name"], data["kw"], data["what"], 11, 2, data["zm"])
    c = one(data["name"], data["kw"], data["what"], 12, 1, data["zm"])
    tag = f"{data['name']}{'-' + data['kw']['integrator'] if data['kw'] else ''}:{data['what']}"
    if a != b:
        return [(f"engine:{tag}:depends-on-global-rng", "outputs differ")]
    if a == c:
        return [(f"engine:{tag}:ignores-job-stream", "outputs equal")]
    d = one(data["name"], data["kw"], data["what"], 11, 1, data["zm"], warmup_stream=12)
    if d != a:
        return [(f"engine:{tag}:depends-on-previous-job", "outputs differ")]
    return []
