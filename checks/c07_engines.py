"""C07 part 2: every random number drawn in-process for a move comes from the
job's streams, in every engine class.

For each engine: modify_velocities (and, for in-process engines, a short
propagate) is run with (i) the same job stream but different global
numpy.random / random state -> outputs must be identical; (ii) two different
job streams and the same global state -> outputs must differ.
"""
from __future__ import annotations

import os
import random

import numpy as np

from vf import engines, scratch

CASES = [
    ("turtlemd", {}, "genvel"), ("lammps", {}, "genvel"), ("gromacs", {}, "genvel"), ("cp2k", {}, "genvel"),
    ("ase", {"integrator": "langevin"}, "genvel"),
    ("turtlemd", {}, "propagate"), ("ase", {"integrator": "langevin"}, "propagate"),
    ("ase", {"integrator": "velocityverlet"}, "genvel"),
]


def one(name, kw, what, stream_seed, global_seed, zero_momentum=False, warmup_stream=None):
    from infretis.classes.path import Path
    from infretis.classes.system import System

    eng, conf = engines.BUILDERS[name](**kw)
    if warmup_stream is not None:
        # an earlier job on the SAME engine object (engines live as long as the worker)
        _job(eng, conf, what, warmup_stream, global_seed, zero_momentum)
    return _job(eng, conf, what, stream_seed, global_seed, zero_momentum)


def _job(eng, conf, what, stream_seed, global_seed, zero_momentum):
    from infretis.classes.path import Path
    from infretis.classes.system import System

    name = eng.name if hasattr(eng, "name") and isinstance(eng.name, str) else ""
    wd = scratch.mkdtemp("c07e")
    try:
        eng.exe_dir = wd
        eng.rgen = np.random.default_rng(np.random.SeedSequence(stream_seed, spawn_key=(3, 0, 0)))
        np.random.seed(global_seed)
        random.seed(global_seed)
        s = System()
        s.set_pos((conf, 0))
        dek, kin = eng.modify_velocities(s, {"zero_momentum": zero_momentum})
        pos, vel, box = engines.read_vel(eng, s.config[0])
        out = [np.round(vel, 12).tolist(), float(kin)]
        if what == "propagate":
            # shoot a few frames from the generated point
            s.order = eng.calculate_order(s) if eng.order_function is not None else [0.0]
            from infretis.classes.orderparameter import Distance

            eng.order_function = Distance((0, 1), periodic=False)
            p = Path(maxlen=4)
            ens = {"interfaces": (-1e9, 0.0, 1e9), "ens_name": "001", "tis_set": {}}
            eng.propagate(p, ens, s, reverse=False)
            out.append([float(pp.order[0]) for pp in p.phasepoints])
            # last configuration of the trajectory
            last = p.phasepoints[-1].config
            if name == "ase":
                from ase.io.trajectory import Trajectory

                t = Trajectory(last[0])
                out.append(np.round(t[last[1]].get_velocities(), 12).tolist())
                t.close()
        return out
    finally:
        scratch.rmtree(wd)


def run_part(ctx):
    n = 0
    for name, kw, what in CASES:
        tag = f"{name}{'-' + kw['integrator'] if kw else ''}:{what}"
        for zm in (False, True):
            a = one(name, kw, what, 11, 1, zm)
            b = one(name, kw, what, 11, 2, zm)
            c = one(name, kw, what, 12, 1, zm)
            n += 3
            ctx.distinct(("engine", tag, zm, a == b, a != c))
            if a != b:
                ctx.violation(f"engine:{tag}:depends-on-global-rng",
                              f"{tag} zero_momentum={zm}: same job stream, different global numpy/random state -> different output",
                              dict(kind="engine", name=name, kw=kw, what=what, zm=zm))
            elif a == c:
                ctx.violation(f"engine:{tag}:ignores-job-stream",
                              f"{tag} zero_momentum={zm}: two different job streams give identical output",
                              dict(kind="engine", name=name, kw=kw, what=what, zm=zm))
            # successive jobs on one engine object: the second job's output is a function of its own stream only
            d = one(name, kw, what, 11, 1, zm, warmup_stream=12)
            n += 1
            if d != a:
                ctx.violation(f"engine:{tag}:depends-on-previous-job",
                              f"{tag} zero_momentum={zm}: a job's output changes when another job ran before it on the same engine object",
                              dict(kind="engine", name=name, kw=kw, what=what, zm=zm))
    ctx.set("engine_runs", n)
    ctx.coverage["evaluations"] = ctx.coverage.get("evaluations", 0) + n
    ctx.assume("engine part: LAMMPS/CP2K/GROMACS propagate (external programs) is covered by C12's fake processes; GROMACS' own velocity generation is outside the property")


def replay(data):
    a = one(data["name"], data["kw"], data["what"], 11, 1, data["zm"])
    b = one(data["name"], data["kw"], data["what"], 11, 2, data["zm"])
    c = one(data["name"], data["kw"], data["what"], 12, 1, data["zm"])
    tag = f"{data['name']}{'-' + data['kw']['integrator'] if data['kw'] else ''}:{data['what']}"
    if a != b:
        return [(f"engine:{tag}:depends-on-global-rng", "outputs differ")]
    if a == c:
        return [(f"engine:{tag}:ignores-job-stream", "outputs equal")]
    d = one(data["name"], data["kw"], data["what"], 11, 1, data["zm"], warmup_stream=12)
    if d != a:
        return [(f"engine:{tag}:depends-on-previous-job", "outputs differ")]
    return []
