"""C04 — fractional weights are conserved and accounted for exactly once.

Per-transition law on every transition of the scheduler closure (C03 graph),
plus the cumulative law carried along every explored history (each snapshot
carries its own totals): data-file rows + live weights (re-read from the
restart file just written) sum, per ensemble, to the number of steps at which
that ensemble was idle.  L2 repeats the cumulative law on whole-program runs
with the lattice engine and real files.
"""

from __future__ import annotations

import os

import numpy as np
import tomli

from vf import l1

from checks import c03

LEVEL = "model_checking"
TOL = 1e-9


def parse_rows(lines, n):
    """Parse data-file rows -> list of (pn, frac vector of length n-1 as floats)."""
    out = []
    for ln in lines:
        if ln.startswith("#") or not ln.strip():
            continue
        t = ln.split()
        pn = int(t[0])
        cols = t[3:]
        m = n - 1  # number of real ensembles
        fr = [0.0 if x == "----" else float(x) for x in cols[:m]]
        out.append((pn, fr))
    return out


class FracObserver(l1.Observer):
    def __init__(self):
        self.idle_steps = None
        self.written = None
        self.rows_seen = set()
        self.nlines = 0

    def on_setup(self, run):
        st = run.state
        self.idle_steps = np.zeros(st.n - 1)
        self.written = np.zeros(st.n - 1)
        with open(st.data_file) as f:
            self.nlines = len(f.readlines())
        self.data_file = os.path.basename(st.data_file)

    def on_treat(self, run, md, before, outcome):
        st = run.state
        n = st.n
        live = st.live_paths()
        locked_paths = st.locked_paths()
        idle_cols = [c for c in range(n - 1) if not st._locks[c]]
        delta_sum = np.zeros(n)
        for slot, p in enumerate(live):
            after = np.array(st.traj_data[p]["frac"], dtype=float)
            bef = np.array(before["frac"].get(p, np.zeros(n)), dtype=float)
            if p not in before["frac"]:
                bef = np.zeros(n)
            d = after - bef
            if np.any(d < -TOL):
                raise l1.Violation("step:negative-increment", f"path {p}: increment {d}")
            if p in locked_paths and np.any(np.abs(d) > TOL):
                raise l1.Violation("step:busy-path-credited", f"busy path {p} received weight {d}")
            for c in range(n):
                if abs(d[c]) > TOL and not st.state[slot][c] != 0:
                    raise l1.Violation("step:credit-where-weight-zero", f"path {p} credited in column {c} where its weight is zero")
            delta_sum += d
        for c in range(n - 1):
            want = 1.0 if c in idle_cols else 0.0
            if abs(delta_sum[c] - want) > 1e-8:
                raise l1.Violation("step:column-sum",
                                   f"ensemble column {c} ({'idle' if want else 'busy'}) received {delta_sum[c]} instead of {want}")
        if abs(delta_sum[n - 1]) > TOL:
            raise l1.Violation("step:ghost-credited", f"ghost column received {delta_sum[n - 1]}")
        for c in idle_cols:
            self.idle_steps[c] += 1
        # data file: rows only for replaced paths, once, never for a live path
        # (clones of a snapshot share the run directory, so only the bytes appended by
        # this very step are read)
        with open(self.data_file) as f:
            f.seek(before["data_size"])
            new = parse_rows(f.readlines(), n)
        replaced = [p for p in before["live"] if p not in live]
        if sorted(pn for pn, _ in new) != sorted(replaced):
            raise l1.Violation("rows:not-exactly-the-replaced-paths",
                               f"rows written for {[pn for pn, _ in new]}, paths replaced {replaced}")
        for pn, fr in new:
            if pn in self.rows_seen:
                raise l1.Violation("rows:written-twice", f"path {pn} written twice")
            if pn in live:
                raise l1.Violation("rows:live-path-written", f"live path {pn} written")
            self.rows_seen.add(pn)
            bef = np.array(before["frac"][pn], dtype=float)
            if np.max(np.abs(np.array(fr) - bef[: n - 1])) > 1e-9 * max(1.0, np.max(np.abs(bef))):
                raise l1.Violation("rows:content", f"row of path {pn} = {fr} but its accumulated weights were {bef[: n - 1].tolist()}")
            self.written += np.array(fr)
        for pn in replaced:
            if pn in st.traj_data:
                raise l1.Violation("rows:replaced-path-kept", f"replaced path {pn} still in traj_data")
        # cumulative law, live part re-read from the restart file just written
        with open("restart.toml", "rb") as f:
            cur = tomli.load(f)["current"]
        tot = self.written.copy()
        for pn in cur["active"]:
            fr = cur["frac"].get(str(pn))
            if fr is None:
                raise l1.Violation("restart:frac-missing", f"restart file has no frac for live path {pn}")
            tot += np.array([float(x) for x in fr])[: n - 1]
            # the restart file must carry the accumulated weights exactly (a restarted run continues from them)
            back = np.array(fr, dtype=np.longdouble)
            mem = np.array(st.traj_data[pn]["frac"], dtype=np.longdouble)
            if back.shape != mem.shape or not np.all(back == mem):
                k = int(np.argmax(back != mem)) if back.shape == mem.shape else -1
                raise l1.Violation("restart:frac-not-exact",
                                   f"path {pn}: restart file holds {fr[k] if k >= 0 else fr} but the accumulated weight is {mem[k] if k >= 0 else mem!r}")
        extra = set(cur["frac"]) - {str(p) for p in cur["active"]}
        if extra:
            raise l1.Violation("restart:frac-of-dead-path", f"restart file keeps weights of non-live paths {sorted(extra)}")
        if np.max(np.abs(tot - self.idle_steps)) > 1e-7:
            raise l1.Violation("history:sum-law", f"rows + live weights = {tot.tolist()} but idle steps = {self.idle_steps.tolist()}")
        if st.workers == 1 and np.any(self.idle_steps != st.cstep):
            raise l1.Violation("history:one-worker-cstep", f"idle steps {self.idle_steps} != cstep {st.cstep}")


def _job(args):
    spec_json, max_states = args
    spec = l1.spec_from_json(spec_json)
    stats, viols = l1.bfs(spec, lambda: [FracObserver()], max_states=max_states,
                          procs=min(16, os.cpu_count() or 1))
    return spec_json, stats, viols


def run(ctx):
    c03.run(ctx, jobfn=_job)
    ctx.assume("cumulative law is carried per explored history inside each snapshot; data rows are parsed from the data file, live weights from restart.toml")


def replay(data):
    spec = l1.spec_from_json(data["spec"])
    from vf import scratch

    wd = os.path.join(scratch.mkdtemp("l1r"), "run")
    old = os.getcwd()
    try:
        res = l1._guard(lambda ch: l1.run_history(spec, data["choices"], data["n_events"], [FracObserver()], wd, ops=data.get("ops")))(None)
    finally:
        os.chdir(old)
    return [(res.sig, res.msg)] if isinstance(res, l1.Violation) else []
