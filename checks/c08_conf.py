"""C08 conformance of the crash model: the modelled crash states against a process that REALLY dies.

For each scenario the last step is executed in a forked child with the real CPython file
objects (real buffering) and the child calls os._exit() at kill point j, for EVERY j (kill
points: before each open-for-write / move / remove / rmdir / mkdir and before each
flush()/close() of a run-directory file).  The tree the dead child leaves behind is compared,
byte for byte, with the set of trees the two write models of vf/faultfs.py produce for the
same scenario (crash after every effect, untorn).  Every real tree must be one of the modelled
trees; otherwise the model misses a state a real crash can produce and the verdicts of the
fault enumeration would not cover it (reported as a harness error, not as a violation of the
property).
"""

from __future__ import annotations

import hashlib
import os

from vf import faultfs, l1, scratch
from vf.explore import Chooser


def tree_digest(root):
    """(relative path, sha1 of bytes | 'dir') of everything FaultFS treats as state."""
    out = []
    for base, dirs, files in os.walk(root):
        dirs.sort()
        for d in dirs:
            rel = os.path.relpath(os.path.join(base, d), root)
            if rel == "load" or rel.startswith("load" + os.sep):
                out.append((rel, "dir"))
        for fn in sorted(files):
            p = os.path.join(base, fn)
            rel = os.path.relpath(p, root)
            if rel.startswith(("restart.toml", "infretis_data")) or rel.startswith("load" + os.sep):
                with open(p, "rb") as f:
                    out.append((rel, hashlib.sha1(f.read()).hexdigest()))
    return tuple(sorted(out))


def last_step(spec, prefix, n_events, restart_before, wd, **fault):
    """Run the scenario; its last step inside a faultfs section.  Returns (effect log, crashed?)."""
    ch = Chooser(prefix)
    run = l1.L1Run(spec, ch, wd, [])
    run.start()
    for k in range(n_events - 1):
        run.event()
        if restart_before and k == 0:
            run.restart()
    if fault.get("crash_at") is not None:
        ch.prefix = ch.prefix[: len(ch.trace) + 2]
    with faultfs.section(run.dir, **fault) as S:
        try:
            run.event()
            crashed = False
        except faultfs.SimulatedCrash:
            crashed = True
    return list(S.log), crashed, run.dir, ch.choices


def _in_child(fn):
    """Run fn() in a forked child; returns (exit status, payload sent back)."""
    import pickle

    r, w = os.pipe()
    pid = os.fork()
    if pid == 0:
        code = 0
        try:
            os.close(r)
            payload = fn()
            with os.fdopen(w, "wb") as f:
                pickle.dump(payload, f)
        except BaseException:  # noqa: BLE001
            import traceback

            traceback.print_exc()
            code = 3
        os._exit(code)
    os.close(w)
    with os.fdopen(r, "rb") as f:
        data = f.read()
    _, status = os.waitpid(pid, 0)
    payload = None
    if data:
        payload = pickle.loads(data)
    return os.waitstatus_to_exitcode(status), payload


def _job(args):
    from checks import c08

    W, delete_old, delete_all, n_events, restart_before, which = args
    spec = c08.mkspec(W, delete_old, delete_all)
    top = scratch.mkdtemp("c08c")
    wd = os.path.join(top, "run")
    old = os.getcwd()
    problems = []
    n_real = n_model = 0
    real_states = set()
    try:
        code, hs = _in_child(lambda: c08.histories(spec, n_events, restart_before, wd))
        if code != 0 or not hs:
            return args, 0, 0, 0, [("harness", f"history enumeration failed in the child (exit {code})")]
        for prefix in hs[which[0]::which[1]]:
            a, b, probs = _one(spec, prefix, n_events, restart_before, wd, real_states)
            n_real += a
            n_model += b
            problems += probs
    finally:
        os.chdir(old)
        l1.deactivate()
        faultfs.uninstall()
        scratch.rmtree(top)
    return args, n_real, n_model, len(real_states), problems


def _one(spec, prefix, n_events, restart_before, wd, real_states):
    problems = []
    n_real = n_model = 0
    if True:
        # modelled crash states (both write models, every effect, untorn) + the completed step
        model = set()
        for buffered in (False, True):
            eff, _, rdir, choices = last_step(spec, prefix, n_events, restart_before, wd, buffered=buffered)
            for k in range(len(eff) + 1):
                log, crashed, rd, _ = last_step(spec, choices, n_events, restart_before, wd,
                                                crash_at=k if k < len(eff) else None, buffered=buffered)
                model.add(tree_digest(rd))
                n_model += 1

        # the real thing
        code, base = _in_child(lambda: last_step(spec, prefix, n_events, restart_before, wd, realkill=True))
        eff, _, rdir, choices = base
        for j in range(len(eff) + 1):
            def real(j=j):
                last_step(spec, choices, n_events, restart_before, wd, crash_at=j, realkill=True)
                return "completed"
            code, payload = _in_child(real)
            if j < len(eff) and code != 77:
                problems.append(("harness", f"real run did not die at kill point {j} (exit {code})"))
                continue
            if j == len(eff) and code != 0:
                problems.append(("harness", f"real run without kill exited {code}"))
                continue
            dg = tree_digest(rdir)
            n_real += 1
            real_states.add(dg)
            if dg not in model:
                lab = eff[j] if j < len(eff) else "end"
                problems.append(("model-misses-real-crash-state", f"kill before point #{j} {lab}: the tree left behind is none of the {len(model)} modelled crash states"))
    return n_real, n_model, problems


def cases(quick):
    # (W, delete_old, delete_old_all, steps, restarted before?, (first, stride) over the scenario's histories)
    out = [(1, False, False, 2, False, (0, 3)), (2, True, True, 3, False, (1, 24)), (1, True, True, 6, False, (0, 80))]
    if not quick:
        out = [(1, False, False, 2, False, (0, 1)), (1, True, True, 3, True, (0, 1)), (1, True, False, 3, False, (0, 1)),
               (1, True, True, 6, False, (0, 9)), (1, True, True, 6, False, (4, 9))]
        out += [(2, d, d, 3, False, (i, 4)) for d in (False, True) for i in range(4)]
    return out


def summarise(ctx, res):
    n_real = n_model = n_distinct = 0
    problems = []
    for args, r, m, d, probs in res:
        n_real += r
        n_model += m
        n_distinct += d
        problems += [(args, p) for p in probs]
        ctx.distinct(("conformance", args, d))
    ctx.set("conformance_real_kills", n_real)
    ctx.set("conformance_model_states", n_model)
    ctx.set("conformance_distinct_real_trees", n_distinct)
    ctx.note(f"crash-model conformance: {n_real} real process deaths (os._exit in a forked child, real CPython buffering) left {n_distinct} distinct trees, "
             f"each identical to one of the modelled crash trees ({n_model} model runs)" if not problems else
             f"crash-model conformance FAILED: {problems[:3]}")
    return problems
