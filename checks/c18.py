"""C18 — invalid configurations are rejected up front; accepted ones initialise.

Exhaustive product lattice over the validated fields; a reference validity
predicate written from the property sentence; oracle: setup_config raises
TOMLConfigError <=> not valid; every accepted configuration goes through the
real setup_internal with valid initial lattice paths, the initial picks and one
completed step per worker; re-reading a restart file the program wrote is a
fixed point of the normalisation.
"""

from __future__ import annotations

import itertools
import os

import tomli_w

from vf import l1, scenario, scratch
from vf.explore import Chooser

LEVEL = "exploration"

INTERFACES = {
    "none": [], "one": [0.5], "two": [0.5, 1.5], "three": [0.5, 1.5, 2.5], "four": [0.5, 1.5, 2.5, 3.5],
    "unsorted": [1.5, 0.5, 2.5], "duplicate": [0.5, 0.5, 1.5],
    # the offending pair in every position
    "unsorted_last": [0.5, 2.5, 1.5], "duplicate_last": [0.5, 1.5, 1.5],
    "two_unsorted": [1.5, 0.5], "two_duplicate": [0.5, 0.5],
    # the origin of the order-parameter axis is arbitrary: interfaces below, at and around 0.0 (a value of
    # exactly zero for lambda_-1, the cap or an interface must be treated like any other number)
    "three_neg": [-1.5, -0.5, 0.5], "three_zero": [0.0, 1.0, 2.0], "three_endzero": [-2.0, -1.0, 0.0],
    "unsorted_mid4": [0.5, 2.5, 1.5, 3.5], "duplicate_last4": [0.5, 1.5, 2.5, 2.5], "unsorted_last4": [0.5, 1.5, 3.5, 2.5],
}
CAPS = ["absent", "below", "at_first", "inside", "at_wf", "at_last", "above", "zero"]
LM1 = ["absent", "below", "at_first", "above", "zero"]
ENGS = ["default", "defined", "undefined", "undefined2"]


def build_cfg(ik, workers, mv_len, mv_pat, capk, engk, lm1k, quantis):
    intf = INTERFACES[ik]
    n = len(intf)
    nm = max(0, n + mv_len)
    if mv_pat == "sh":
        moves = ["sh"] * nm
    elif mv_pat == "wf":
        moves = ["sh"] + ["wf"] * max(0, nm - 1)
    else:
        moves = ["sh"] + [("wf" if k % 2 else "sh") for k in range(max(0, nm - 1))]
    moves = moves[:nm]
    cfg = scenario.toml_dict(B=max(n, 2), workers=workers, moves=moves, steps=10, screen=0)
    cfg["simulation"]["interfaces"] = list(intf)
    cfg["simulation"]["shooting_moves"] = moves
    cfg["engine"]["B"] = max(n, 2)
    ts = cfg["simulation"]["tis_set"]
    s_intf = sorted(intf)
    cap = None
    if capk != "absent" and n >= 1:
        lo, hi = s_intf[0], s_intf[-1]
        wf_lams = [s_intf[e - 1] for e in range(1, min(n, len(moves))) if moves[e] == "wf"]
        cap = {"below": lo - 0.25, "at_first": lo, "inside": lo + 1.0 if n >= 3 else (lo + hi) / 2,
               "at_wf": (max(wf_lams) if wf_lams else (lo + hi) / 2), "at_last": hi, "above": hi + 1.0, "zero": 0.0}[capk]
        ts["interface_cap"] = cap
    elif capk != "absent":
        cap = 1.0
        ts["interface_cap"] = cap
    lm1 = None
    if lm1k != "absent":
        lo = s_intf[0] if n else 0.5
        lm1 = {"below": lo - 1.0, "at_first": lo, "above": lo + 0.5, "zero": 0.0}[lm1k]
        ts["lambda_minus_one"] = lm1
    if quantis:
        ts["quantis"] = True
    if engk == "defined":
        cfg["engine0"] = dict(cfg["engine"])
        cfg["simulation"]["ensemble_engines"] = [["engine0"]] + [["engine"]] * max(0, n - 1)
    elif engk == "undefined":
        cfg["simulation"]["ensemble_engines"] = [["engineX"]] + [["engine"]] * max(0, n - 1)
    elif engk == "undefined2":
        # the undefined name is not the first engine of its ensemble and not in the first ensemble
        cfg["simulation"]["ensemble_engines"] = [["engine"]] * max(0, n - 1) + [["engine", "engineX"]]
    return cfg, dict(intf=intf, n=n, workers=workers, moves=moves, cap=cap, lm1=lm1, quantis=quantis, engk=engk)


def valid(meta):
    """The property sentence, clause by clause.  Returns (ok, reason)."""
    intf, n, moves = meta["intf"], meta["n"], meta["moves"]
    if n < 2:
        return False, "fewer than two interfaces"
    if sorted(intf) != intf:
        return False, "unsorted interfaces"
    if len(set(intf)) != len(intf):
        return False, "duplicate interfaces"
    if meta["workers"] > n - 1:
        return False, "more workers than ensembles minus one"
    if len(moves) < n:
        return False, "fewer shooting moves than ensembles"
    cap = meta["cap"]
    if cap is not None:
        if cap > intf[-1] or cap < intf[0]:
            return False, "interface cap outside the interfaces"
        for e in range(1, n):
            if moves[e] == "wf" and not cap > intf[e - 1]:
                return False, "interface cap leaves a wire-fencing ensemble no room"
    if meta["engk"] in ("undefined", "undefined2"):
        return False, "undefined engine"
    if meta["quantis"] and meta["engk"] == "default":
        return False, "undefined engine"  # quantis selects 'engine0', which this configuration does not define
    lm1 = meta["lm1"]
    if lm1 is not None and not lm1 < intf[0]:
        return False, "lambda_-1 not below lambda_0"
    return True, ""


def lattice_room(meta):
    """Can valid initial lattice paths with non-zero weights exist (integer sites)?"""
    intf, moves, cap = meta["intf"], meta["moves"], meta["cap"]
    n = meta["n"]
    if intf and intf[0] != 0.5:
        return False  # shifted axis: the lattice template's initial paths do not fit
    for e in range(1, n):
        if moves[e] == "wf":
            right = cap if cap is not None else intf[-1]
            lam = intf[e - 1]
            # need an integer site s with lam <= s < right that a path crossing lam can visit
            sites = [s for s in range(0, n + 1) if lam <= s < right]
            if not sites:
                return False
    return True


def as_restart_file(cfg, meta, wd):
    from infretis.setup import TOMLConfigError, setup_config

    n = max(meta["n"], 1)
    cfg = dict(cfg)
    cfg["current"] = {"traj_num": n, "cstep": 5, "active": list(range(n)), "locked": [], "size": n, "frac": {}}
    load = os.path.join(wd, cfg["simulation"].get("load_dir", "load"))
    for k in range(n):
        os.makedirs(os.path.join(load, str(k)), exist_ok=True)
        open(os.path.join(load, str(k), "traj.txt"), "a").close()
    for f in os.listdir(wd):
        if f.startswith("infretis_data") or f in ("restart.toml", "infretis.toml"):
            os.remove(os.path.join(wd, f))
    with open(os.path.join(wd, "restart.toml"), "wb") as f:
        tomli_w.dump(cfg, f)
    old = os.getcwd()
    os.chdir(wd)
    try:
        try:
            out = setup_config("restart.toml")
            return "accepted" if out is not None else "none"
        except TOMLConfigError:
            return "rejected"
        except Exception as e:  # noqa: BLE001
            return f"raised:{type(e).__name__}"
    finally:
        os.chdir(old)


def judge_one(args):
    (ik, workers, mv_len, mv_pat, capk, engk, lm1k, quantis), wd = args
    from infretis.setup import TOMLConfigError, setup_config

    cfg, meta = build_cfg(ik, workers, mv_len, mv_pat, capk, engk, lm1k, quantis)
    ok, reason = valid(meta)
    for f in os.listdir(wd):
        if f.startswith("infretis_data") or f in ("restart.toml", "infretis.toml"):
            os.remove(os.path.join(wd, f))
    with open(os.path.join(wd, "infretis.toml"), "wb") as f:
        tomli_w.dump(cfg, f)
    old = os.getcwd()
    os.chdir(wd)
    try:
        try:
            out = setup_config("infretis.toml")
            res = "accepted" if out is not None else "none"
        except TOMLConfigError as e:
            res = "rejected"
            msg = str(e)
        except Exception as e:  # noqa: BLE001
            res = f"raised:{type(e).__name__}"
            msg = str(e)
    finally:
        os.chdir(old)
    key = (ik, workers, mv_len, mv_pat, capk, engk, lm1k, quantis)
    if not ok and res == "rejected" and meta["n"] >= 1:
        # the same settings in a restart file (the user edits restart.toml to continue a run): must be rejected too
        res2 = as_restart_file(cfg, meta, wd)
        if res2 != "rejected":
            return key, f"invalid({reason})-in-a-restart-file-but-{res2}", "", meta
    if ok and res == "accepted":
        return key, "ok-accepted", None, meta
    if not ok and res == "rejected":
        return key, "ok-rejected", reason, meta
    if ok and res == "rejected":
        # the property only says which configurations MUST be rejected; rejecting more is allowed
        return key, "ok-valid-but-rejected", msg, meta
    if ok:
        return key, "valid-but-" + res, msg if res != "accepted" else "", meta
    return key, f"invalid({reason})-but-{res}", "", meta


def init_one(key):
    """Accepted configuration -> real setup_internal, initial picks, one completed step per worker."""
    ik, workers, mv_len, mv_pat, capk, engk, lm1k, quantis = key
    cfg, meta = build_cfg(*key)
    if not lattice_room(meta):
        return key, "skipped-no-lattice-room", ""
    n = meta["n"]
    extra = {}
    if meta["lm1"] is not None:
        extra["lambda_minus_one"] = meta["lm1"]
    if quantis:
        extra["quantis"] = True
    if engk == "defined":
        eng0 = dict(scenario.toml_dict(B=n)["engine"])
        extra["extra_engines"] = {"engine0": eng0}
        extra["ensemble_engines"] = [["engine0"]] + [["engine"]] * (n - 1)
    spec = l1.Spec(B=n, workers=workers, moves=meta["moves"], cap=meta["cap"], alphabet="min", extra=extra, steps=50)
    wd = os.path.join(scratch.mkdtemp("c18i"), "run")
    old = os.getcwd()
    try:
        def fn(ch):
            run = l1.L1Run(spec, ch, wd, [])
            run.start()
            for _ in range(workers):
                run.event()
            # fixed point: the restart file the program wrote
            from infretis.setup import setup_config

            a = setup_config("restart.toml")
            if a is None:
                raise l1.Violation("restart-not-accepted", "setup_config(restart.toml) returned None")
            a.get("current", {}).pop("restarted_from", None)
            with open("again.toml", "wb") as f:
                tomli_w.dump(a, f)
            os.rename("restart.toml", "restart.keep")
            try:
                b = setup_config("again.toml")
            finally:
                os.rename("restart.keep", "restart.toml")
            if b is not None:
                b.get("current", {}).pop("restarted_from", None)
            if a != b:
                diff = [k for k in a if a.get(k) != (b or {}).get(k)]
                raise l1.Violation("normalisation-not-a-fixed-point", f"sections differing after re-reading: {diff}")
            return "ok"

        res = l1._guard(fn)(Chooser([]))
    finally:
        os.chdir(old)
        l1.deactivate()
        scratch.rmtree(os.path.dirname(wd))
    if isinstance(res, l1.Violation):
        return key, res.sig, res.msg
    return key, "ok", ""


_WD = {}


def _judge_chunk(keys):
    wd = scratch.mkdtemp("c18")
    try:
        return [judge_one((k, wd)) for k in keys]
    finally:
        scratch.rmtree(wd)


def all_keys(ctx):
    iks = list(INTERFACES) if not ctx.quick else [k for k in INTERFACES if k != "four"]
    out = []
    for ik in iks:
        for workers in (1, 2, 3, 4):
            for mv_len in (-1, 0, 1):
                for mv_pat in ("sh", "wf", "mix"):
                    for capk in CAPS:
                        for engk in ENGS:
                            for lm1k in LM1:
                                for quantis in (False, True):
                                    out.append((ik, workers, mv_len, mv_pat, capk, engk, lm1k, quantis))
    return out


def run(ctx):
    import multiprocessing as mp

    keys = all_keys(ctx)
    chunks = [keys[i::64] for i in range(64)]
    with mp.get_context("fork").Pool(min(16, os.cpu_count() or 1)) as pool:
        res = [r for ch in pool.map(_judge_chunk, chunks) for r in ch]
        accepted = [k for k, verdict, _, _ in res if verdict == "ok-accepted"]
        # initialise every accepted configuration (quick: skip the combinations that differ only in moves length +1)
        init_keys = accepted if not ctx.quick else [k for k in accepted if k[2] == 0]
        ires = pool.map(init_one, init_keys, chunksize=4)
    counts = {}
    seen = set()
    for key, verdict, info, meta in res:
        counts[verdict.split("(")[0] if verdict.startswith("ok") else verdict] = counts.get(verdict, 0) + 1
        ctx.distinct(("verdict", verdict))
        if not verdict.startswith("ok"):
            sig = verdict
            if sig not in seen:
                seen.add(sig)
                ctx.violation(sig, f"config {key}: interfaces={meta['intf']} workers={meta['workers']} moves={meta['moves']} "
                                   f"cap={meta['cap']} lm1={meta['lm1']} quantis={meta['quantis']} engines={meta['engk']} {info}",
                              dict(kind="cfg", key=list(key)))
    icounts = {}
    for key, verdict, msg in ires:
        icounts[verdict] = icounts.get(verdict, 0) + 1
        ctx.distinct(("init", verdict))
        if verdict not in ("ok", "skipped-no-lattice-room"):
            sig = f"accepted-but-init:{verdict}"
            if sig not in seen:
                seen.add(sig)
                ctx.violation(sig, f"accepted config {key} does not initialise: {msg}", dict(kind="init", key=list(key)))
    ctx.set("evaluations", len(res) + len(ires))
    ctx.set("configurations", len(res))
    ctx.set("verdicts", counts)
    ctx.set("initialisations", icounts)
    ctx.set("rule", "product of interfaces x workers x moves length/pattern x cap x engines x lambda_-1 x quantis; distinct = verdict classes")
    ctx.sample(dict(key=list(keys[len(keys) // 3]), cfg_meta={k: v for k, v in build_cfg(*keys[len(keys) // 3])[1].items()}))
    ctx.assume("initialisation uses lattice paths; configurations whose wf region contains no integer site are counted as skipped, not judged")


def replay(data):
    key = tuple(data["key"])
    if data["kind"] == "cfg":
        wd = scratch.mkdtemp("c18r")
        k, verdict, info, meta = judge_one((key, wd))
        return [] if verdict.startswith("ok") else [(verdict, info or "")]
    k, verdict, msg = init_one(key)
    return [] if verdict in ("ok", "skipped-no-lattice-room") else [(f"accepted-but-init:{verdict}", msg)]
