"""C09 — accepted paths belong to their ensemble; rejections change nothing;
shooting accepts exactly when u <= n_old/n_new.

All executions of the real ``shoot`` / ``wire_fencing`` / ``retis_swap_zero``
on the lattice, for every old path of every ensemble up to a length bound:
every shooting index, every cell of every uniform draw (lazily refined by the
comparisons the code makes), every step sequence of the walk.  Each execution
is judged (membership, time order, weight, shooting point, old path untouched);
the summed exact probabilities give the transition kernel, compared with the
reference kernel of the length-based Metropolis rule (equality of Fractions).
"""

from __future__ import annotations

import os
from fractions import Fraction

from vf import lattice as lat
from vf import moves
from vf.explore import digest
from vf.ref import latticepaths as lp

LEVEL = "model_checking"


def configs(ctx):
    """(dyn_name, B, kind, i, move, M, cap, n_jumps, allowmax, ld)"""
    out = []
    q = ctx.quick
    for B, Ms in ((3, (5, 7, 8) if q else (5, 8, 10, 11)), (4, (6, 7) if q else (6, 8, 9))):
        for M in Ms:
            out.append(("sym", B, "minus", 0, "sh", M, None, None, False, False))
            for i in range(B - 1):
                out.append(("sym", B, "plus", i, "sh", M, None, None, False, False))
    # drifted dynamics (different step probabilities exercise the weights)
    out.append(("drift", 3, "plus", 0, "sh", 6 if q else 8, None, None, False, False))
    out.append(("drift", 3, "plus", 1, "sh", 6 if q else 8, None, None, False, False))
    out.append(("drift", 3, "minus", 0, "sh", 6 if q else 8, None, None, False, False))
    # allowmaxlength / loaded path: no length draw
    out.append(("sym", 3, "plus", 0, "sh", 6, None, None, True, False))
    out.append(("sym", 3, "plus", 1, "sh", 6, None, None, False, True))
    # wire fencing
    for nj in (1, 2):
        for i in (0, 1):
            out.append(("sym", 3, "plus", i, "wf", 6 if (q or nj == 2) else 8, None, nj, False, False))
    out.append(("sym", 3, "plus", 0, "wf", 6, 1.5, 1, False, False))
    out.append(("sym", 4, "plus", 0, "wf", 6 if q else 7, 2.5, 1, False, False))
    out.append(("sym", 4, "plus", 1, "wf", 6 if q else 7, 2.5, 1, False, False))
    # old paths that were produced by another move type (they arrive through swaps)
    out.append(("sym", 3, "plus", 1, "sh", 6, None, None, False, "wf"))
    out.append(("sym", 3, "plus", 0, "wf", 6, None, 1, False, "sh"))
    out.append(("sym", 3, "minus", 0, "sh", 6, None, None, False, "00"))
    # a path read back at a restart ('re'; only a path loaded at the very start, 'ld', is exempt from the length draw)
    out.append(("sym", 3, "plus", 1, "sh", 6, None, None, False, "re"))
    out.append(("sym", 3, "plus", 0, "sh", 5, None, None, False, "re"))
    # the origin of the axis is arbitrary: lambda_0 = 0.0, cap = 0.0, an inner interface = 0.0, everything negative
    out.append(("sym@-0.5", 3, "minus", 0, "sh", 5, None, None, False, False))
    out.append(("sym@-0.5", 3, "plus", 0, "sh", 5, None, None, False, False))
    out.append(("sym@-1.5", 3, "plus", 1, "sh", 5 if q else 7, None, None, False, False))
    out.append(("sym@-10", 3, "plus", 1, "sh", 5, None, None, False, False))
    out.append(("sym@-2.5", 4, "plus", 0, "wf", 6, 2.5, 1, False, False))
    out.append(("sym@-2.5", 4, "plus", 1, "wf", 6, 2.5, 1, False, False))
    out.append(("sym@-1.5", 3, "plus", 1, "wf", 6, None, 2, False, False))
    if not q:
        out.append(("sym", 4, "plus", 0, "wf", 6, 2.5, 2, False, False))
        out.append(("sym", 4, "plus", 2, "wf", 7, None, 1, False, False))
        out.append(("drift", 3, "plus", 0, "wf", 7, None, 2, False, False))
    return out


def mkdyn(name, B):
    name = name.split("@")[0]
    return lat.SYMMETRIC(B) if name == "sym" else lat.DRIFTED(B)


def shift_of(name):
    """'sym@-2.5': the same configuration with the order-parameter axis moved by -2.5 (see vf/lattice.SHIFT)."""
    return float(name.split("@")[1]) if "@" in name else 0.0


def _job(args):
    cfg, old = args
    name, B, kind, i, move, M, cap, nj, allowmax, ld = cfg
    dyn = mkdyn(name, B)
    kw = dict(move=move, cap=cap, n_jumps=nj, allowmaxlength=allowmax)
    if ld:
        # a path loaded from disk: no detailed-balance length draw
        fn_old = moves.shoot_fn

        def patched(*a, **k):
            return fn_old(*a, **k)
    if isinstance(ld, str):
        # the old path carries the label of another move (it arrived in this ensemble through swaps)
        kw["old_label"] = ld
        ld = False
    with lat.shifted(shift_of(name)):
        K, recs, n = moves.kernel(dyn, kind, i, old, M, **kw) if not ld else _kernel_ld(dyn, kind, i, old, M)
    bad = []
    idxs = set()
    outcomes = set()
    for r in recs:
        outcomes.add((r["status"], r["new"]))
        if move == "sh" and r.get("idx") is not None:
            idxs.add(r["idx"])
        for code, text in r["clauses"]:
            bad.append((code, text, r["choices"]))
    return cfg, old, {k: (v.numerator, v.denominator) for k, v in K.items()}, n, bad, sorted(idxs), len(outcomes)


def _kernel_ld(dyn, kind, i, old, M):
    """Same as moves.kernel but the old path is marked as loaded ('ld')."""
    import vf.lattice as L

    orig = L.mk_path

    def mk(sites, maxlen, generated=("sh", 0.0, 0, 0), number=None, tag="old"):
        return orig(sites, maxlen, generated=("ld", float("nan"), 0, 0), number=number, tag=tag)

    L.mk_path = mk
    try:
        return moves.kernel(dyn, kind, i, old, M, move="sh")
    finally:
        L.mk_path = orig


def _swap_job(args):
    name, B, M, old0, old1, move1, cap = args
    dyn = mkdyn(name, B)
    with lat.shifted(shift_of(name)):
        K, recs, n = moves.swap_kernel(dyn, old0, old1, M, move1=move1, cap=cap)
    bad = []
    outcomes = set()
    for r in recs:
        outcomes.add((r["status"], r["new"]))
        for code, text in r["clauses"]:
            bad.append((code, text, r["choices"]))
    return (name, B, M, move1, cap), (old0, old1), n, bad, len(outcomes)


def equality_probes(ctx, dyn, kind, i, M):
    """u exactly equal to n_old/n_new (dyadic ratios): the trial with that
    n_new must be accepted ('at most')."""
    S = lp.enumerate_paths(dyn, kind, M, i=i)
    n = 0
    for old in S:
        n_old = len(old) - 2
        for n_new in range(1, M - 1):
            r = Fraction(n_old, n_new)
            if r >= 1 or r.denominator & (r.denominator - 1):
                continue  # only exact binary fractions below 1
            K, recs, ne = moves.kernel(dyn, kind, i, old, M, forced_u=[float(r)])
            n += ne
            got = {q for q in K if q != old}
            exp = set()
            for q in S:
                if q == old or len(q) - 2 > n_new:
                    continue
                if moves.ref_shoot_kernel(dyn, kind, i, old, q, M) > 0:
                    exp.add(q)
            if got != exp:
                miss = sorted(exp - got)[:2]
                extra = sorted(got - exp)[:2]
                ctx.violation(
                    f"sh:acceptance-equality:{kind}{i}",
                    f"u == n_old/n_new = {r} (old {old}): accepted set differs from 'u <= n_old/n_new'; "
                    f"missing {miss} unexpected {extra}",
                    dict(kind="probe", dyn=dyn.name.split('-')[0], B=dyn.B, ens=kind, i=i, M=M, old=list(old), u=float(r)),
                )
                return n
    return n


def run(ctx):
    import multiprocessing as mp

    cfgs = configs(ctx)
    jobs = []
    for cfg in cfgs:
        name, B, kind, i, move, M, cap, nj, allowmax, ld = cfg
        dyn = mkdyn(name, B)
        # old paths: everything the ensemble contains up to M (wf: the move's own space is L <= M-1,
        # but a longer old path is legal input, so enumerate to M)
        for old in lp.enumerate_paths(dyn, kind, M, i=i):
            jobs.append((cfg, old))
    rot = ctx.seed % max(1, len(jobs))
    jobs = jobs[rot:] + jobs[:rot]
    with mp.get_context("fork").Pool(min(16, os.cpu_count() or 1)) as pool:
        results = pool.map(_job, jobs, chunksize=1)
        # zero swaps
        sjobs = []
        for name, B, M, move1, cap in (("sym", 3, 5 if ctx.quick else 7, "sh", None),
                                       ("sym", 3, 5 if ctx.quick else 6, "wf", None),
                                       ("sym", 4, 6, "wf", 2.5), ("sym@-0.5", 3, 5, "sh", None), ("sym@-2.5", 4, 6, "wf", 2.5)):
            dyn = mkdyn(name, B)
            for o0 in lp.enumerate_paths(dyn, "minus", M):
                for o1 in lp.enumerate_paths(dyn, "plus", M, i=0):
                    sjobs.append((name, B, M, o0, o1, move1, cap))
        sres = pool.map(_swap_job, sjobs, chunksize=1)

    n_exec = 0
    kernels = {}
    seen_sig = set()
    for cfg, old, K, n, bad, idxs, nout in results:
        n_exec += n
        name, B, kind, i, move, M, cap, nj, allowmax, ld = cfg
        kernels.setdefault(cfg, {})[old] = {k: Fraction(*v) for k, v in K.items()}
        ctx.distinct(("move", cfg, old, nout))
        for code, text, choices in bad:
            sig = f"{move}:{code}:{kind}{i}"
            if sig not in seen_sig:
                seen_sig.add(sig)
                ctx.violation(sig, f"{cfg} old={old}: {text}",
                              dict(kind="exec", cfg=list(cfg), old=list(old), choices=choices, code=code))
        if move == "sh":
            want = list(range(1, len(old) - 1))
            if idxs != want:
                sig = f"sh:shooting-index-range:{kind}{i}"
                if sig not in seen_sig:
                    seen_sig.add(sig)
                    ctx.violation(sig, f"{cfg} old={old}: shooting indices observed {idxs}, expected {want}",
                                  dict(kind="idx", cfg=list(cfg), old=list(old)))
    # acceptance law: exact kernel == reference kernel (only where a number is drawn)
    n_pairs = 0
    for cfg, Ks in kernels.items():
        name, B, kind, i, move, M, cap, nj, allowmax, ld = cfg
        if move != "sh" or allowmax or ld is True:
            continue
        dyn = mkdyn(name, B)
        S = sorted(Ks)
        done = False
        for p in S:
            for qn in S:
                if p == qn:
                    continue
                n_pairs += 1
                ref = moves.ref_shoot_kernel(dyn, kind, i, p, qn, M)
                got = Ks[p].get(qn, Fraction(0))
                if got != ref and not done:
                    done = True
                    ctx.violation(
                        f"sh:acceptance-law:{kind}{i}",
                        f"{cfg}: P({p} -> {qn}) = {got} but the rule 'accept iff u <= n_old/n_new' gives {ref} "
                        f"(ratio {got / ref if ref else 'inf'}; n_old={len(p) - 2}, n_new={len(qn) - 2})",
                        dict(kind="kernel", cfg=list(cfg), old=list(p), new=list(qn)),
                    )
            # closedness: every accepted target is in the ensemble (also judged per execution)
    n_swap = 0
    for key, olds, n, bad, nout in sres:
        n_swap += n
        ctx.distinct(("swap", key, olds, nout))
        for code, text, choices in bad:
            sig = f"swap0:{code}"
            if sig not in seen_sig:
                seen_sig.add(sig)
                ctx.violation(sig, f"{key} olds={olds}: {text}",
                              dict(kind="swap", key=list(key), olds=[list(o) for o in olds], choices=choices, code=code))
    n_probe = 0
    for kind, i in (("plus", 0), ("plus", 1), ("minus", 0)):
        n_probe += equality_probes(ctx, lat.SYMMETRIC(3), kind, i, 6 if ctx.quick else 8)

    ctx.set("evaluations", n_exec + n_swap + n_probe)
    ctx.set("states", sum(len(v) for v in kernels.values()) + len(sres))
    ctx.set("transitions", n_exec + n_swap)
    ctx.set("traces_validated_against_impl", n_exec + n_swap + n_probe)
    ctx.set("move_executions", n_exec)
    ctx.set("swap_executions", n_swap)
    ctx.set("equality_probe_executions", n_probe)
    ctx.set("kernel_entries_compared", n_pairs)
    ctx.set("configs", len(cfgs))
    ctx.set("rule", "state = (configuration, old path); transition = one complete execution of the real move "
                    "(choice sequence over shooting index, refined uniform cells, lattice steps); "
                    "distinct = (configuration, old path, number of distinct (status,new path) outcomes)")
    for cfg in cfgs[:3]:
        olds = sorted(kernels[cfg])
        ctx.sample(dict(config=list(cfg), old_paths=len(olds),
                        example_old=list(olds[-1]),
                        example_row={str(k): str(v) for k, v in list(kernels[cfg][olds[-1]].items())[:4]}))
    ctx.set("determinism_selfcheck", _selfcheck())
    ctx.assume("lattice walk (reversible birth-death chain) stands for MD; modify_velocities is the identity")
    ctx.assume("int((L-2)/u) outcomes >= maxlength+1 are merged into one branch (the code takes min(.,maxlength))")
    ctx.assume("wire-fencing: the 'contains the shooting point' clause is checked for sh only")


def _selfcheck():
    dyn = lat.SYMMETRIC(3)
    fn = moves.shoot_fn(dyn, "plus", 0, (0, 1, 2, 1, 0), 6)
    from vf.explore import Chooser

    obs = []
    for _ in range(2):
        ch = Chooser([1, 1, 0, 1])
        r = fn(ch)
        obs.append((r["status"], r["new"], ch.choices, ch.labels))
    if obs[0] != obs[1]:
        from vf.runner import HarnessError

        raise HarnessError("C09 self-check: same schedule, different observations")
    return digest(obs[0])


def replay(data):
    name = data["cfg"][0] if "cfg" in data else (data["key"][0] if "key" in data else "sym")
    with lat.shifted(shift_of(str(name))):
        return _replay(data)


def _replay(data):
    kind = data["kind"]
    out = []
    if kind in ("exec", "idx", "kernel"):
        cfg = tuple(data["cfg"])
        name, B, ek, i, move, M, cap, nj, allowmax, ld = cfg
        dyn = mkdyn(name, B)
        old = tuple(data["old"])
        if kind == "exec":
            from vf.explore import Chooser

            if ld is True:
                return [("replay-unsupported", "ld")]
            fn = moves.shoot_fn(dyn, ek, i, old, M, move=move, cap=cap, n_jumps=nj, allowmaxlength=allowmax,
                                old_label=ld if isinstance(ld, str) else None)
            r = fn(Chooser(data["choices"]))
            for code, text in r["clauses"]:
                out.append((f"{move}:{code}:{ek}{i}", text))
        elif kind == "idx":
            K, recs, n = moves.kernel(dyn, ek, i, old, M, old_label=ld if isinstance(ld, str) else None)
            idxs = sorted({r["idx"] for r in recs if r.get("idx") is not None})
            if idxs != list(range(1, len(old) - 1)):
                out.append((f"sh:shooting-index-range:{ek}{i}", str(idxs)))
        else:
            new = tuple(data["new"])
            K, recs, n = moves.kernel(dyn, ek, i, old, M, old_label=ld if isinstance(ld, str) else None)
            ref = moves.ref_shoot_kernel(dyn, ek, i, old, new, M)
            if K.get(new, Fraction(0)) != ref:
                out.append((f"sh:acceptance-law:{ek}{i}", f"{K.get(new, 0)} != {ref}"))
    elif kind == "swap":
        from vf.explore import Chooser

        name, B, M, move1, cap = data["key"]
        dyn = mkdyn(name, B)
        o0, o1 = (tuple(x) for x in data["olds"])
        r = moves.swap_fn(dyn, o0, o1, M, move1=move1, cap=cap)(Chooser(data["choices"]))
        for code, text in r["clauses"]:
            out.append((f"swap0:{code}", text))
    elif kind == "probe":
        class _C:
            def __init__(self):
                self.v = []

            def violation(self, sig, msg, rp):
                self.v.append((sig, msg))

        c = _C()
        equality_probes(c, mkdyn(data["dyn"], data["B"]), data["ens"], data["i"], data["M"])
        out = c.v
    return out
