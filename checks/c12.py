"""C12 — every engine returns the trajectory it actually ran.

External engines (LAMMPS, CP2K, GROMACS) are built from the repository's
example inputs and run against controlled fake programs (vf/fakeproc.py): ALL
schedules of (writer advances one frame | two frames | stays | finishes | dies
with rc != 0) against the engine's polls.  In-process engines (TurtleMD, ASE,
lattice plug-in) are run over a grid of initial conditions, interfaces,
subcycles and length limits.  Oracle: frame 0 is the start point; the stored
order of frame k equals the order recomputed from frame k as written (its own
coordinates, box and velocity direction); the path stops at the first frame
outside the interfaces or at the length limit and reports success only in the
former case; the program is stopped when propagate returns; a failing program
raises unless the complete path was already delivered.
"""

from __future__ import annotations

import itertools
import os

import numpy as np

from vf import engines, fakeproc, scratch, watchdog
from vf.explore import Chooser, explore

LEVEL = "model_checking"


def pbc_distance(pos, boxlen):
    d = pos[1] - pos[0]
    out = []
    for x, L in zip(d, boxlen):
        if abs(x) > 0.5 * L:
            x = x - round(x / L) * L
        out.append(x)
    return float(np.sqrt(sum(x * x for x in out)))


def pbc_distance_rate(pos, vel, boxlen, vel_rev):
    """d|r|/dt with the physical velocities (file velocities are the running ones: reversed when vel_rev)."""
    d = pos[1] - pos[0]
    out = []
    for x, L in zip(d, boxlen):
        if abs(x) > 0.5 * L:
            x = x - round(x / L) * L
        out.append(x)
    out = np.array(out)
    dv = (vel[1] - vel[0]) * (-1.0 if vel_rev else 1.0)
    return float(np.dot(out, dv) / np.sqrt(np.dot(out, out)))


def reference(frames, left, right, maxlen, op="dist", vel_rev=False):
    """Orders of the path the engine must return and its success flag."""
    orders = []
    for (pos, vel, box) in frames:
        if op == "distvel":
            orders.append(pbc_distance_rate(pos, vel, box[:, 1] - box[:, 0], vel_rev))
        else:
            orders.append(pbc_distance(pos, box[:, 1] - box[:, 0]))
    out = []
    for k, o in enumerate(orders):
        out.append(o)
        if o < left or o > right:
            return out, True
        if len(out) == maxlen:
            return out, False
    return out, None  # program ended before the path did


# ---------------------------------------------------------------------------
# LAMMPS
# ---------------------------------------------------------------------------

LAMMPS_CASES = [
    # (x of atom 2 relative to atom 1, velocity per step, box0, boxes of later frames, interfaces, maxlen, subcycles)
    dict(d0=3.0, v=0.5, box0=12.0, boxes=[12.0], intf=(2.0, 3.0, 4.4), maxlen=6, sub=1),
    dict(d0=6.5, v=0.25, box0=10.0, boxes=[14.0, 10.0], intf=(2.0, 3.0, 8.0), maxlen=5, sub=1),
    dict(d0=3.0, v=0.25, box0=12.0, boxes=[12.0], intf=(2.0, 3.0, 9.0), maxlen=4, sub=2),
    dict(d0=3.0, v=-0.5, box0=12.0, boxes=[7.0, 12.0], intf=(1.2, 3.0, 9.0), maxlen=6, sub=1),
    # velocity dependent order parameter (rate of change of the distance): the sign must follow the physical velocity
    dict(d0=3.0, v=0.5, box0=12.0, boxes=[12.0], intf=(-9.0, 0.0, 9.0), maxlen=4, sub=1, op="distvel"),
]


def lammps_run(ch, case, reverse, wd, menu, kill_latency=0):
    import infretis.classes.engines.lammps as lmod
    from infretis.classes.orderparameter import Distance
    from infretis.classes.path import Path
    from infretis.classes.system import System

    for f in os.listdir(wd):
        os.remove(os.path.join(wd, f))
    eng, _ = engines.lammps()
    eng.exe_dir = wd
    eng.order_function = Distance((0, 1), periodic=True)
    if case.get("op") == "distvel":
        from infretis.classes.orderparameter import Distancevel

        eng.order_function = Distancevel((0, 1), periodic=True)
    eng.rgen = np.random.default_rng(5)
    eng.subcycles = case["sub"]
    eng.timestep = 1.0
    conf = os.path.join(wd, "init.lammpstrj")
    pos = np.array([[1.0, 0.5, 0.25], [1.0 + case["d0"], 0.5, 0.25]])
    v = case["v"] * (-1.0 if reverse else 1.0)  # file holds forward velocities; reverse run flips them
    vel = np.array([[0.0, 0.0, 0.0], [case["v"], 0.0, 0.0]])
    box = np.array([[0.0, case["box0"]]] * 3)
    lmod.write_lammpstrj(conf, np.array([[1, 1], [2, 1]]), pos, vel, box)
    progs = []
    boxes = [np.array([[0.0, b]] * 3) for b in case["boxes"]]
    world = fakeproc.World(ch, lambda cmd, cwd: fakeproc.LammpsProgram(cmd, cwd, boxes=boxes, record=progs), menu=menu)
    world.kill_latency = kill_latency
    world.patch(lmod)
    path = Path(maxlen=case["maxlen"])
    s = System()
    s.set_pos((conf, 0))
    s.vel_rev = False
    ens = {"interfaces": case["intf"], "ens_name": "001", "tis_set": {}}
    raised = None
    success = None
    try:
        with watchdog.limit(20):
            success, status = eng.propagate(path, ens, s, reverse=reverse)
    except RuntimeError as e:
        raised = str(e)
    except watchdog.Hang as e:
        raised = "HANG: " + str(e)
    except Exception as e:  # noqa: BLE001 - any other exception is judged like a raise
        raised = f"{type(e).__name__}: {e}"
    finally:
        world.unpatch()
    return dict(path=path, success=success, raised=raised, world=world, prog=progs[0] if progs else None, eng=eng)


def lammps_judge(r, case, reverse):
    bad = []
    prog = r["prog"]
    if prog is None:
        return [("no-program-started", "Popen was never called")]
    proc = r["world"].procs[0]
    left, _, right = case["intf"]
    # the full toy trajectory (as the program would write it)
    frames = [prog.flight.frame(k, prog.subcycles) for k in range(prog.nframes)]
    ref_orders, ref_success = reference(frames, left, right, case["maxlen"], op=case.get("op", "dist"), vel_rev=reverse)
    written = len(prog.written)
    died = proc.returncode not in (0, None) and not proc.killed
    if r["raised"] is not None and r["raised"].startswith("HANG"):
        return [("hang", r["raised"])]
    if r["raised"] is not None:
        if not died:
            bad.append(("raised-without-failure", f"propagate raised although the program did not fail: {r['raised'][:80]}"))
        return bad
    path = r["path"]
    got = [float(pp.order[0]) for pp in path.phasepoints]
    if died and written < len(ref_orders):
        bad.append(("failure-not-raised", f"program died with rc={proc.returncode} after {written} frames, "
                    f"propagate returned a path of {len(got)} frames instead of raising (complete path has {len(ref_orders)})"))
        return bad
    if proc.returncode is None:
        bad.append(("program-left-running", "propagate returned while the external program is still running"))
    if len(got) != len(ref_orders):
        bad.append(("path-length", f"path has {len(got)} frames, the trajectory run gives {len(ref_orders)} (orders {got} vs {ref_orders})"))
    else:
        for k, (a, b) in enumerate(zip(got, ref_orders)):
            if abs(a - b) > 1e-9:
                bad.append(("order-not-from-own-frame", f"frame {k}: stored order {a} but frame {k} as written (own box "
                            f"{(frames[k][2][:, 1] - frames[k][2][:, 0]).tolist()}) gives {b}; all stored {got} expected {ref_orders}"))
                break
        if bool(r["success"]) != bool(ref_success):
            bad.append(("success-flag", f"success={r['success']} but the path {'crossed' if ref_success else 'hit the length limit'}"))
    for k, pp in enumerate(path.phasepoints):
        if pp.config != (prog.traj, k):
            bad.append(("frame-reference", f"frame {k} references {pp.config}, expected ({prog.traj}, {k})"))
            break
        if bool(pp.vel_rev) != bool(reverse):
            bad.append(("velocity-flag", f"frame {k} vel_rev={pp.vel_rev} for reverse={reverse}"))
            break
    # frame 0 is the start point
    if got and abs(got[0] - ref_orders[0]) > 1e-9:
        bad.append(("first-frame", "frame 0 is not the start point"))
    if prog.seed is None:
        bad.append(("no-seed-in-input", "run.inp carries no seed"))
    return bad


def _lammps_job(args):
    ci, reverse, menu, first = args
    case = LAMMPS_CASES[ci]
    wd = scratch.mkdtemp("c12l")
    viols = {}
    n = 0
    shapes = set()
    try:
        # kill latency: a signalled LAMMPS (mpirun) is gone at once, or stays "running" for five more polls
        for lat_ in (0, 5):
            def fn(ch, lat_=lat_):
                r = lammps_run(ch, case, reverse, wd, menu, kill_latency=lat_)
                return lammps_judge(r, case, reverse), r["world"].max_visible_per_poll, len(r["path"].phasepoints), r["raised"] is not None

            for ch, (bad, _, plen, raised) in explore(fn, prefix=[first]):
                n += 1
                shapes.add((tuple(ch.choices), plen, raised, lat_))
                for clause, msg in bad:
                    viols.setdefault(f"lammps:{clause}", (f"case {ci} reverse={reverse} schedule {[menu[c] if lab == 'proc' else c for c, lab in zip(ch.choices, ch.labels)]}"
                                                          f"{' (signalled process takes five polls to die)' if lat_ else ''}: {msg}",
                                                          dict(kind="lammps", ci=ci, reverse=reverse, menu=list(menu), choices=ch.choices, kill_latency=lat_)))
    finally:
        scratch.rmtree(wd)
    return ("lammps", ci, reverse, first), n, len(shapes), viols


def run(ctx):
    import multiprocessing as mp

    menu = ("frame", "2frames", "stay", "finish", "die", "sig")
    jobs = []
    for ci in range(len(LAMMPS_CASES)):
        for reverse in (False, True):
            for first in range(len(menu)):
                jobs.append((ci, reverse, menu, first))
    with mp.get_context("fork").Pool(min(16, os.cpu_count() or 1)) as pool:
        res = pool.map(_lammps_job, jobs, chunksize=1)
    n = 0
    states = 0
    for key, k, shapes, viols in res:
        n += k
        states += 1
        ctx.distinct((key, shapes))
        for sig, (msg, rp) in viols.items():
            ctx.violation(sig, msg, rp)
    extra = 0
    for modname in ("c12_ext", "c12_inproc"):
        try:
            mod = __import__(f"checks.{modname}", fromlist=["run_part"])
        except ImportError:
            continue
        extra += mod.run_part(ctx)
    ctx.set("states", states + ctx.coverage.get("extra_states", 0))
    ctx.set("transitions", n + extra)
    ctx.set("evaluations", n + extra)
    ctx.set("traces_validated_against_impl", n + extra)
    ctx.set("lammps_schedules", n)
    ctx.set("rule", "state = (engine, toy-dynamics case, direction); transition = one complete schedule of writer progress vs engine polls "
                    "(one frame / two frames / stay (<= 2 in a row) / finish / die with rc 1 / killed by a signal (rc -11) at every poll); distinct = (case, number of distinct schedules)")
    ctx.sample(dict(engine="lammps", case=LAMMPS_CASES[1], schedule=["frame", "2frames", "stay", "frame"]))
    ctx.assume("fake writers emit the formats the real programs emit; toy dynamics = free flight with a box that changes per frame")


def replay(data):
    if data["kind"] == "lammps":
        case = LAMMPS_CASES[data["ci"]]
        wd = scratch.mkdtemp("c12r")
        try:
            r = lammps_run(Chooser(data["choices"]), case, data["reverse"], wd, tuple(data["menu"]), kill_latency=data.get("kill_latency", 0))
            return [(f"lammps:{c}", m) for c, m in lammps_judge(r, case, data["reverse"])]
        finally:
            scratch.rmtree(wd)
    mod = __import__(f"checks.c12_{data['kind']}", fromlist=["replay"])
    return mod.replay(data)
