"""C17 part (b): the real aiorunner + future_list under a virtual event loop.

Workers 1..2, 1..3 units each succeeding or raising, ALL interleavings of
worker wake-ups (timers), executor completions (in any order), submissions,
polls and stop() up to a deviation bound from a canonical fair schedule.
Oracle: each unit's task function ran exactly once; its future got exactly one
result or exception, the right one; as_completed returned each future once;
after stop() no task is pending, the loop is stopped and the queue is empty.
"""

from __future__ import annotations

import asyncio
import itertools

from vf import vloop
from vf.explore import Chooser, Pruned, explore


class TaskError(Exception):
    pass


def scenario(ch, W, outcomes, stop_after=None, lazy=False):
    """Returns list of (clause, message)."""
    import infretis.asyncrunner as ar

    world = vloop.World(ch)
    world.lazy = lazy
    world.install()
    bad = []
    try:
        calls = {}

        def task(unit):
            calls[unit["id"]] = calls.get(unit["id"], 0) + 1
            if unit["fail"]:
                raise TaskError(f"unit {unit['id']} failed")
            return dict(unit, done=True)

        runner = ar.aiorunner({}, W)
        runner.set_task(task)
        runner.start()
        futures = ar.future_list()
        units = [dict(id=i, fail=(o == "raise")) for i, o in enumerate(outcomes)]
        submitted = {}
        collected = []
        set_calls = {}
        # main program: submit all, collect all, stop — interleaved with the other side
        pc = 0
        runner_stopped = False
        # stop_after = k: stop() is called when only k results have been collected (the rest is still queued
        # or running: stop() has to wait for it), the remaining results are collected afterwards
        k_stop = len(units) if stop_after is None else stop_after
        program = [("submit", u) for u in units] + [("collect",)] * k_stop + [("stop",)] + [("collect",)] * (len(units) - k_stop)
        while pc < len(program):
            op = program[pc]
            main_enabled = True
            if op[0] == "collect":
                main_enabled = any(f.done() for f in futures._futures)
            en = world.enabled(main_enabled)
            if lazy and ("main",) in en:
                # second canonical schedule: the main thread is fast (it goes first), executor jobs are slow
                en = [("main",)] + [a for a in en if a != ("main",)]
            if runner_stopped and op[0] == "collect":
                # the runner is gone: whatever was not delivered by now never will be
                en = [("main",)] if main_enabled else []
            if not en:
                bad.append(("deadlock", f"nothing enabled before {op[0]} (collected {len(collected)}/{len(units)})"))
                return bad, world
            c = ch.choose(len(en), "sched") if len(en) > 1 else 0
            act = en[c]
            if act[0] != "main":
                world.perform(act)
                continue
            world._count()
            world.log.append(("main", op[0]))
            if op[0] == "submit":
                fut = runner.submit_work(op[1])
                submitted[id(fut)] = op[1]["id"]
                futures.add(fut)
            elif op[0] == "collect":
                fut = futures.as_completed()
                if fut is None:
                    bad.append(("as_completed-none", "as_completed returned None although a future was done"))
                else:
                    uid = submitted.get(id(fut))
                    if uid in [c_[0] for c_ in collected]:
                        bad.append(("future-returned-twice", f"unit {uid} delivered twice"))
                    if fut.exception() is not None:
                        collected.append((uid, "raise", type(fut.exception()).__name__))
                    else:
                        collected.append((uid, "ok", fut.result().get("id")))
            else:
                runner.stop()
                runner_stopped = True
            pc += 1
        # oracle
        for u in units:
            n = calls.get(u["id"], 0)
            if n != 1:
                bad.append(("unit-not-executed-once", f"unit {u['id']} executed {n} times"))
        got = {c_[0]: c_ for c_ in collected}
        for u in units:
            c_ = got.get(u["id"])
            if c_ is None:
                bad.append(("result-not-delivered", f"unit {u['id']} never delivered"))
            elif u["fail"] and c_[1] != "raise":
                bad.append(("exception-lost", f"unit {u['id']} failed but its future holds a result"))
            elif not u["fail"] and (c_[1] != "ok" or c_[2] != u["id"]):
                bad.append(("wrong-result", f"unit {u['id']} delivered {c_}"))
        if world.loop.errors:
            bad.append(("loop-error", f"event loop reported {world.loop.errors[:2]}"))
        pending = [t for t in asyncio.all_tasks(world.loop) if not t.done()]
        if pending:
            bad.append(("task-pending-after-stop", f"{len(pending)} tasks pending after stop()"))
        if not world.loop.stopped_flag:
            bad.append(("loop-not-stopped", "event loop not stopped after stop()"))
        if runner._queue.qsize() != 0:
            bad.append(("queue-not-empty", f"{runner._queue.qsize()} items left in the queue"))
        if world.thread_joined != 1:
            bad.append(("thread-not-joined", f"joined {world.thread_joined} times"))
        return bad, world
    except vloop.Deadlock as e:
        bad.append(("deadlock", str(e)))
        return bad, world
    finally:
        world.uninstall()


def cases(quick):
    out = []
    for W in (1, 2):
        for n in (1, 2, 3):
            for outs in itertools.product(("ok", "raise"), repeat=n):
                if quick and n == 3 and outs.count("raise") not in (0, 1):
                    continue
                out.append((W, outs, None))
                # stop() while work is queued or running
                for k in range(n):
                    if quick and (n == 3 or (W == 1 and n == 2 and k == 1)):
                        continue
                    out.append((W, outs, k))
                    if W == 2:
                        out.append((W, outs, -k - 1))  # the same with the lazy-executor canonical schedule
    return out


def _job(args):
    W, outs, stop_after, max_dev = args
    viols = {}
    n = 0
    pruned = 0
    shapes = set()

    lazy = stop_after is not None and stop_after < 0
    sa = stop_after if not lazy else -stop_after - 1

    def fn(ch):
        return scenario(ch, W, outs, sa, lazy=lazy)

    for ch, res in explore(fn, max_dev=max_dev):
        n += 1
        if isinstance(res, Pruned):
            pruned += 1
            viols.setdefault("livelock-or-horizon", (f"W={W} outcomes={outs} stop_after={stop_after}: run did not finish within the action horizon",
                                                     dict(kind="vloop", W=W, outs=list(outs), stop_after=stop_after, choices=ch.choices)))
            continue
        bad, world = res
        shapes.add(tuple(a[0] if a[0] != "main" else a[1] for a in world.log))
        for clause, msg in bad:
            viols.setdefault(clause, (f"W={W} outcomes={outs}{'' if stop_after is None else f' stop() after {sa} result(s)' + (' (lazy executor)' if lazy else '')}: {msg}",
                                      dict(kind="vloop", W=W, outs=list(outs), stop_after=stop_after, choices=ch.choices)))
    return (W, outs, stop_after), n, len(shapes), viols


def run_part(ctx):
    import multiprocessing as mp
    import os

    max_dev = 2 if ctx.quick else 3
    jobs = [(W, outs, sa, max_dev) for W, outs, sa in cases(ctx.quick)]
    with mp.get_context("fork").Pool(min(16, os.cpu_count() or 1)) as pool:
        res = pool.map(_job, jobs, chunksize=1)
    n = 0
    for key, k, shapes, viols in res:
        n += k
        ctx.distinct(("vloop", key, shapes))
        for clause, (msg, rp) in viols.items():
            ctx.violation(f"runner:{clause}", msg, rp)
    ctx.set("vloop_interleavings", n)
    ctx.set("vloop_states", len(jobs))
    ctx.set("vloop_deviation_bound_completed", max_dev)
    if True:
        ctx.exhaustive = False
        ctx.caps.append(f"aiorunner interleavings explored up to {max_dev} deviations from the canonical fair schedule")
    ctx.assume("aiorunner part: main-thread API calls are atomic events interleaved with single event-loop handle executions; "
               "bytecode-level races between the two real threads are not explored")
    return n


def replay(data):
    try:
        sa = data.get("stop_after")
        lazy = sa is not None and sa < 0
        bad, world = scenario(Chooser(data["choices"]), data["W"], tuple(data["outs"]), sa if not lazy else -sa - 1, lazy=lazy)
    except Pruned:
        return [("runner:livelock-or-horizon", "run did not finish within the action horizon")]
    return [(f"runner:{c}", m) for c, m in bad]
