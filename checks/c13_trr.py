"""C13, TRR part: GromacsRunner.get_gromacs_frames against a fake mdrun whose
TRR file grows at byte granularity.

For both byte orders x both precisions, 2-3 frames of 40 atoms (smaller frames
never enter the live-reading branch, which waits for TRR_HEAD_SIZE bytes), the
visible size of the file takes every single intermediate value (single cuts:
every byte offset) and pairs of values (thorough: every pair on a stride plus
all structural boundaries +-1), then the program exits.  Oracle: the frames
yielded are exactly the written frames, each once, in order, with exactly the
written values; no exception; a frame is never yielded before it is complete.
"""
from __future__ import annotations

import os

import numpy as np

from vf import fakeproc, scratch, watchdog
from vf.ref import trr


class GrowProgram:
    """Fake mdrun: the TRR file shows sizes[0], sizes[1], ... bytes at successive sleeps, then all, then exit 0."""

    def __init__(self, path, edr, data, sizes):
        self.path = path
        self.data = data
        self.sizes = list(sizes)
        self.i = 0
        with open(edr, "wb") as f:
            f.write(b"edr")
        with open(path, "wb") as f:
            f.write(data[: self.sizes[0]] if self.sizes else data)
        self.visible = self.sizes[0] if self.sizes else len(data)
        self.i = 1

    def done(self):
        return self.visible >= len(self.data)

    def grow(self):
        """Next visible size; returns False when everything is visible."""
        if self.i < len(self.sizes):
            new = self.sizes[self.i]
            self.i += 1
        else:
            new = len(self.data)
        if new > self.visible:
            with open(self.path, "ab") as f:
                f.write(self.data[self.visible:new])
            self.visible = new
        return not self.done()


class GrowWorld:
    def __init__(self, prog_factory, exit_at_once=False):
        # exit_at_once: the program exits in the same instant in which it writes its last bytes (no poll sees
        # 'file complete, program still running')
        self.exit_at_once = exit_at_once
        self.factory = prog_factory
        self.proc = None
        self.sleeps = 0
        self.yield_log = []

    def Popen(self, cmd, **kw):
        self.prog = self.factory()
        self.proc = fakeproc.FakeProc(self, self.prog)
        return self.proc

    def sleep(self, dt=0):
        self.sleeps += 1
        if self.sleeps > 2000:
            raise RuntimeError("reader keeps polling: livelock")
        if self.proc.returncode is None:
            if self.prog.done():
                self.proc.returncode = 0
            else:
                self.prog.grow()
                if self.exit_at_once and self.prog.done():
                    self.proc.returncode = 0

    def killpg(self, pgid, sig):
        self.proc.kill_()

    def getpgid(self, pid):
        return pid


def run_case(data, raw, sizes, wd, exit_at_once=False):
    import infretis.classes.engines.gromacs as gmod

    trr_file = os.path.join(wd, "t.trr")
    edr_file = os.path.join(wd, "t.edr")
    for f in (trr_file, edr_file):
        if os.path.exists(f):
            os.remove(f)
    world = GrowWorld(lambda: GrowProgram(trr_file, edr_file, data, sizes), exit_at_once=exit_at_once)
    w = fakeproc.World(None, None)
    w.Popen, w.sleep, w.killpg, w.getpgid = world.Popen, world.sleep, world.killpg, world.getpgid
    w.patch(gmod)
    got = []
    early = []
    exc = None
    live = 0
    try:
        ends = np.cumsum([len(b) for b in raw["bytes"]])
        with watchdog.limit(10), gmod.GromacsRunner(["mdrun"], trr_file, edr_file, wd) as gro:
            for fr in gro.get_gromacs_frames():
                k = len(got)
                got.append(fr)
                if world.proc.returncode is None:
                    live += 1
                if k < len(ends) and world.prog.visible < ends[k]:
                    early.append((k, world.prog.visible, int(ends[k])))
    except Exception as e:  # noqa: BLE001
        exc = f"{type(e).__name__}: {e}"
    finally:
        w.unpatch()
    return got, early, exc, live


def judge(got, early, exc, frames_raw):
    bad = []
    if exc:
        bad.append(("raised", exc))
        return bad
    if early:
        bad.append(("frame-before-complete", f"frame {early[0][0]} yielded with {early[0][1]} bytes visible, complete at {early[0][2]}"))
    if len(got) != len(frames_raw):
        bad.append(("frame-count", f"{len(got)} frames yielded, {len(frames_raw)} written"))
        return bad
    for k, (g, r) in enumerate(zip(got, frames_raw)):
        for key in ("x", "v", "f", "box"):
            if r[key] is None:
                if key in g:
                    bad.append(("unexpected-field", f"frame {k} has {key}"))
                continue
            if key not in g or not np.array_equal(np.asarray(g[key], dtype=float), np.asarray(r[key], dtype=float)):
                bad.append(("wrong-values", f"frame {k} field {key} differs from the written values"))
                return bad
    return bad


def _job(args):
    endian, double, nframes, with_f, mode, stride = args
    blobs, raw = trr.frames(40, nframes, endian=endian, double=double, with_f=with_f)
    data = b"".join(blobs)
    info = dict(bytes=blobs)
    wd = scratch.mkdtemp("c13t")
    viols = {}
    n = 0
    live_total = 0
    hangs = 0
    try:
        total = len(data)
        ends = list(np.cumsum([len(b) for b in blobs]))
        hl = raw[0]["header_len"]
        struct_pts = set()
        for e in [0] + ends:
            for d in (-1, 0, 1):
                struct_pts.add(e + d)
                struct_pts.add(e + hl + d)
                struct_pts.add(e + 1000 + d)
        struct_pts = sorted(p for p in struct_pts if 0 <= p <= total)
        if mode == "single":
            cases = [[c] for c in range(0, total + 1)]
        else:
            grid = sorted(set(range(0, total + 1, stride)) | set(struct_pts))
            cases = [[a, b] for i, a in enumerate(grid) for b in grid[i + 1:]]
        for sizes, at_once in [(sz, ao) for sz in cases for ao in (False, True)]:
            got, early, exc, live = run_case(data, info, sizes, wd, exit_at_once=at_once)
            n += 1
            live_total += live
            if exc and exc.startswith("Hang"):
                hangs += 1
                if hangs >= 2:
                    viols.setdefault("trr_reader:raised", (f"reader hangs (busy loop) for visible sizes {sizes}: {exc}",
                                                           dict(kind="trr", endian=endian, double=double, nframes=nframes, with_f=with_f, sizes=sizes, at_once=at_once)))
                    break
            for clause, msg in judge(got, early, exc, raw):
                viols.setdefault(f"trr_reader:{clause}", (f"endian={endian} double={double} frames={nframes} forces={with_f} visible sizes {sizes}{' then exit with the last write' if at_once else ''}: {msg}",
                                                          dict(kind="trr", endian=endian, double=double, nframes=nframes, with_f=with_f, sizes=sizes, at_once=at_once)))
    finally:
        scratch.rmtree(wd)
    return args, n, live_total, viols


def run_part(ctx):
    import multiprocessing as mp

    jobs = []
    for endian in (">", "<"):
        for double in (False, True):
            jobs.append((endian, double, 2, False, "single", 0))
            jobs.append((endian, double, 2 if ctx.quick else 3, double, "pairs", 41 if ctx.quick else 17))
            # frames of different composition (forces on every second frame)
            jobs.append((endian, double, 3, "alternate", "single", 0))
            if not ctx.quick:
                jobs.append((endian, double, 3, "alternate", "pairs", 29))
    with mp.get_context("fork").Pool(min(16, os.cpu_count() or 1)) as pool:
        res = pool.map(_job, jobs, chunksize=1)
    n = 0
    live = 0
    for args, k, lv, viols in res:
        n += k
        live += lv
        ctx.distinct(("trr", args[:5], k))
        for sig, (msg, rp) in viols.items():
            ctx.violation(sig, msg, rp)
    if live == 0 and not ctx.violations:
        from vf.runner import HarnessError

        raise HarnessError("C13/TRR vacuous: no frame was ever yielded while the fake program was still running")
    ctx.coverage["evaluations"] = ctx.coverage.get("evaluations", 0) + n
    ctx.coverage["states"] = ctx.coverage.get("states", 0) + len(jobs)
    ctx.coverage["transitions"] = ctx.coverage.get("transitions", 0) + n
    ctx.coverage["traces_validated_against_impl"] = ctx.coverage.get("traces_validated_against_impl", 0) + n
    ctx.set("trr_growth_schedules", n)
    ctx.set("trr_frames_yielded_while_running", live)
    ctx.assume("TRR frames are produced by a harness-side encoder written from the format description (both byte orders, both precisions)")


def replay(data):
    blobs, raw = trr.frames(40, data["nframes"], endian=data["endian"], double=data["double"], with_f=data["with_f"])
    wd = scratch.mkdtemp("c13tr")
    try:
        got, early, exc, live = run_case(b"".join(blobs), dict(bytes=blobs), data["sizes"], wd, exit_at_once=data.get("at_once", False))
        return [(f"trr_reader:{c}", m) for c, m in judge(got, early, exc, raw)]
    finally:
        scratch.rmtree(wd)
