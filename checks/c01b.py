"""C01 part (b): the sampler's joint Markov chain, exactly.

System: lattice with B = 3 (ensembles [0-], [0+], [1+]), one worker.  A joint
state is the tuple of live paths by slot.  From every reachable joint state the
real REPEX_state is instantiated through the real restart path
(initiate_ensembles + load_paths), ALL outcomes of the real prep_md_items (pick,
zero-swap coin, partner) are enumerated with their probabilities (scripted
generator), the exact move kernels of part (a) supply the move outcomes (sound
because run_md is a pure function of the pickled job: it runs in another
process), and the real treat_output produces the successor state.  Breadth-first
closure gives the exact chain T.  Oracles: T is irreducible; with its stationary
vector pi the long-run value of the estimator encoded in the data file,
  sum_s pi(s) sum_k P_s[k,i]/w_k[i] 1[path_k crosses lambda_{i+1}]
  / sum_s pi(s) sum_k P_s[k,i]/w_k[i],
equals the exact crossing probability of the length-truncated path space within
the rigorous truncation bound 2*mass(L >= M-1) (shooting treats L = maxlength as
inside the space, wire fencing and the zero swap do not).
"""

from __future__ import annotations

import copy
import os
from fractions import Fraction

import numpy as np

from vf import l1, lattice as lat, moves, scenario, scratch
from vf import scripted_rng as sr
from vf.explore import explore
from vf.ref import latticepaths as lp

from infretis.core import tis


def frac_snapshot(st):
    return {pn: np.array(d["frac"], dtype=float) for pn, d in st.traj_data.items()}


def recorded_terms(st, before, B):
    """What the real treat_output has just added to the live paths' accumulated weights ('frac', the
    numbers that end up in the data file), turned into the terms of the running estimate a user
    computes from that file: for ensemble [i+], sum of frac/weight over its paths (den) and over those
    that reach lambda_{i+1} (num)."""
    lam = lat.interfaces(B)
    out = [[0.0, 0.0] for _ in range(B - 1)]
    for pn, d in st.traj_data.items():
        inc = np.array(d["frac"], dtype=float) - before.get(pn, 0.0)
        wts = d["weights"]
        if len(wts) == 1:
            continue  # a [0-] path
        for i in range(B - 1):
            x = float(inc[1 + i])
            if x == 0.0:
                continue
            w = float(wts[i])
            if not w > 0:
                out[i][1] = float("nan")  # weight recorded for a path that has none in this ensemble
                continue
            out[i][1] += x / w
            if d["max_op"][0] >= lam[i + 1]:
                out[i][0] += x / w
    return [tuple(t) for t in out]


def mkdyn(name, B):
    return lat.SYMMETRIC(B) if name == "sym" else lat.DRIFTED(B)


class Chain:
    def __init__(self, dynname, mv, M, cap=None, n_jumps=1):
        self.dynname = dynname
        self.B = 3
        self.dyn = mkdyn(dynname, 3)
        self.mv = list(mv)  # ["sh", m0, m1]
        self.M = M
        self.cap = cap
        self.n_jumps = n_jumps
        self.kcache = {}
        self.wd = os.path.join(scratch.mkdtemp("c01b"), "run")
        scenario.build(self.wd, B=3, workers=1, moves=self.mv, cap=cap, steps=10**6, seed=0,
                       maxlength=M, screen=0, n_jumps=n_jumps)
        from infretis.setup import setup_config

        old = os.getcwd()
        os.chdir(self.wd)
        try:
            scenario.reset_globals()
            self.cfg = setup_config("infretis.toml")
        finally:
            os.chdir(old)
        self.md_items = None  # built from the state exactly as setup_internal does (mc_moves, interfaces, cap)

    def close(self):
        scratch.rmtree(os.path.dirname(self.wd))

    # -- exact kernels of the moves (part a machinery) ---------------------------
    def kernel(self, ens, old):
        key = (ens, old)
        if key not in self.kcache:
            if ens == -1:
                K, _, _ = moves.kernel(self.dyn, "minus", 0, old, self.M, move="sh")
            else:
                mvname = self.mv[ens + 1]
                K, _, _ = moves.kernel(self.dyn, "plus", ens, old, self.M, move=mvname, cap=self.cap,
                                       n_jumps=self.n_jumps if mvname == "wf" else None,
                                       move_of={0: self.mv[1], 1: self.mv[2]})
            self.kcache[key] = {k: float(v) for k, v in K.items()}
        return self.kcache[key]

    def swap_kernel(self, old0, old1):
        key = ("swap", old0, old1)
        if key not in self.kcache:
            K, _, _ = moves.swap_kernel(self.dyn, old0, old1, self.M, move1=self.mv[1], cap=self.cap)
            self.kcache[key] = {k: float(v) for k, v in K.items()}
        return self.kcache[key]

    # -- one real scheduler state ----------------------------------------------
    def build_state(self, s):
        from infretis.classes.repex import REPEX_state

        cfg = copy.deepcopy(self.cfg)
        scenario.reset_globals()
        l1.activate(True)
        st = REPEX_state(cfg, minus=True)
        st.traj_data = {}
        st.initiate_ensembles()
        paths = []
        for k, sites in enumerate(s):
            p = lat.mk_path(sites, maxlen=self.M, generated=("sh", 0.0, 1, 1), number=k, tag=f"p{k}")
            paths.append(p)
        st.load_paths(paths)
        st.engine_occ = {"engine": [-1]}
        st.pstore = l1.StubStore()
        # what setup_internal hands to every job
        self.md_items = {"mc_moves": st.mc_moves, "interfaces": st.interfaces, "cap": st.cap}
        return st

    def expand(self, s):
        """All (probability, successor) of one scheduler step from joint state s, and the estimator terms of s."""
        old = os.getcwd()
        os.chdir(self.wd)
        try:
            terms = [[0.0, 0.0] for _ in range(self.B - 1)]
            # every outcome of the real pick
            picks = []

            def fn(ch):
                sr.use(ch)
                st = self.build_state(s)
                st.initiate()
                md = st.prep_md_items(copy.deepcopy(self.md_items))
                return tuple(md["ens_nums"]), tuple(lat.sites(md["picked"][e]["traj"]) for e in md["ens_nums"])

            for ch, (ens, olds) in explore(fn):
                picks.append((ch.choices, ch.prob_float(), ens, olds))
            out = {}
            for choices, pp, ens, olds in picks:
                if len(ens) == 1:
                    K = self.kernel(ens[0], olds[0])
                    outcomes = [(pk, (new,) if new != olds[0] else None) for new, pk in K.items()]
                else:
                    K = self.swap_kernel(olds[0], olds[1])
                    outcomes = [(pk, new if new != (olds[0], olds[1]) else None) for new, pk in K.items()]
                for pk, new in outcomes:
                    if pk == 0:
                        continue
                    succ, rec = self.apply(s, choices, ens, new)
                    out[succ] = out.get(succ, 0.0) + pp * pk
                    for i in range(self.B - 1):
                        terms[i][0] += pp * pk * rec[i][0]
                        terms[i][1] += pp * pk * rec[i][1]
            return out, [tuple(t) for t in terms], len(picks)
        finally:
            os.chdir(old)
            l1.deactivate()

    def apply(self, s, pick_choices, ens, new):
        """Real treat_output for one (pick, move outcome)."""
        from vf.explore import Chooser

        ch = Chooser(pick_choices)
        sr.use(ch)
        st = self.build_state(s)
        st.initiate()
        md = st.prep_md_items(copy.deepcopy(self.md_items))
        st.initiate()  # ends the initiation phase as scheduler() does
        assert tuple(md["ens_nums"]) == ens
        status = "ACC" if new is not None else "FTL"
        for k, e in enumerate(md["ens_nums"]):
            trial = md["picked"][e]["traj"]
            if new is not None:
                trial = lat.mk_path(new[k], maxlen=self.M, generated=("sh", 0.0, 1, 1), tag="n")
                trial.status = "ACC"
                trial.weights = tis.calc_cv_vector(trial, md["interfaces"], md["mc_moves"],
                                                   md["picked"][e]["ens"]["tis_set"]["lambda_minus_one"],
                                                   cap=md["cap"], minus=e < 0)
                md["picked"][e]["traj"] = trial
            md["moves"].append("x")
            md["trial_len"].append(trial.length)
            md["trial_op"].append((0.0, 0.0))
            md["generated"].append(trial.generated)
        md.update({"status": status, "wmd_start": 0.0, "wmd_end": 0.0})
        st.loop()
        before = frac_snapshot(st)
        st.treat_output(md)
        return tuple(lat.sites(t) for t in st._trajs[:-1]), recorded_terms(st, before, self.B)


_CHAIN = {}


def _expand_job(args):
    key, s = args
    ch = _CHAIN.get(key)
    if ch is None:
        ch = _CHAIN[key] = Chain(*key)
    try:
        return s, ch.expand(s)
    except Exception as e:  # noqa: BLE001 - the real code raised while taking a step: a verdict, not a harness error
        import traceback

        tb = traceback.extract_tb(e.__traceback__)
        where = next((f"{os.path.basename(fr.filename)}:{fr.name}" for fr in reversed(tb) if "/infretis/" in fr.filename), "?")
        return s, ("error", f"{type(e).__name__} in {where} while stepping from joint state {s}: {e}")


def solve(key, procs):
    """Closure + stationary solve.  Returns dict with estimates and diagnostics."""
    import multiprocessing as mp

    dynname, mv, M, cap, nj = key
    dyn = mkdyn(dynname, 3)
    init = ((1, 0, 1), (0, 1, 0), (0, 1, 2, 1, 0))
    states = {init: 0}
    order = [init]
    rows = {}
    terms = {}
    frontier = [init]
    n_steps = 0
    with mp.get_context("fork").Pool(procs) as pool:
        while frontier:
            res = pool.map(_expand_job, [(key, s) for s in frontier], chunksize=2)
            nxt = []
            for s, r_ in res:
                if r_[0] == "error":
                    return dict(error=r_[1])
                out, tr, npick = r_
                rows[s] = out
                terms[s] = tr
                n_steps += sum(1 for _ in out)
                for t in out:
                    if t not in states:
                        states[t] = len(order)
                        order.append(t)
                        nxt.append(t)
            frontier = nxt
    n = len(order)
    T = np.zeros((n, n))
    for s, out in rows.items():
        tot = sum(out.values())
        for t, p in out.items():
            T[states[s], states[t]] += p
        if abs(tot - 1.0) > 1e-9:
            return dict(error=f"outgoing probabilities of state {s} sum to {tot}")
    # irreducibility (strong connectivity) by forward/backward reachability
    A = T > 0

    def reach(M_):
        seen = {0}
        stack = [0]
        while stack:
            i = stack.pop()
            for j in np.nonzero(M_[i])[0]:
                if j not in seen:
                    seen.add(int(j))
                    stack.append(int(j))
        return seen

    irreducible = len(reach(A)) == n and len(reach(A.T)) == n
    # stationary vector: pi T = pi
    w, v = np.linalg.eig(T.T)
    k = int(np.argmin(np.abs(w - 1.0)))
    pi = np.real(v[:, k])
    pi = pi / pi.sum()
    resid = float(np.max(np.abs(pi @ T - pi)))
    est = []
    for i in range(2):
        num = sum(pi[states[s]] * terms[s][i][0] for s in order)
        den = sum(pi[states[s]] * terms[s][i][1] for s in order)
        est.append(num / den if den else float("nan"))
    return dict(states=n, transitions=int(A.sum()), steps=n_steps, irreducible=irreducible, pi_resid=resid,
                estimate=est, min_pi=float(pi.min()))


def configs(quick):
    out = []
    M = 8 if quick else 10
    for mv in (("sh", "sh", "sh"), ("sh", "wf", "sh"), ("sh", "sh", "wf"), ("sh", "wf", "wf")):
        out.append(("drift", mv, M, None, 1))
    if not quick:
        out.append(("sym", ("sh", "sh", "sh"), 10, None, 1))
        out.append(("drift", ("sh", "wf", "wf"), 9, None, 2))
        out.append(("drift", ("sh", "wf", "sh"), 10, 1.5, 1))
    else:
        out.append(("sym", ("sh", "sh", "sh"), 8, None, 1))
        out.append(("drift", ("sh", "wf", "sh"), 8, 1.5, 1))
    return out


def judge(key, r):
    dynname, mv, M, cap, nj = key
    dyn = mkdyn(dynname, 3)
    bad = []
    if "error" in r:
        return [("chain:step-raised", f"{key}: {r['error']}")], {}
    if not r["irreducible"]:
        bad.append(("chain:not-irreducible", f"{key}: the chain of {r['states']} states is not strongly connected"))
    exact = lp.crossing_probabilities(dyn, M)
    exact1 = lp.crossing_probabilities(dyn, M - 1)
    info = {}
    for i in range(2):
        tail = float(lp.tail_mass(dyn, "plus", M, i=i, shell=2))
        bound = 2.0 * tail + 1e-9
        ex = float(exact[i + 1])
        ex1 = float(exact1[i + 1])
        est = r["estimate"][i]
        # The moves disagree only on whether the shell L = maxlength belongs to the path space (shooting: yes;
        # wire fencing and zero swap: no).  The stationary estimate therefore lies between the exact values of
        # the two conventions; the acceptance band is that interval widened by its own width on both sides
        # (an all-wf chain reproduces the L<=M-1 value to 1e-12, an all-sh chain sits inside the interval).
        width = abs(ex - ex1)
        lo, hi = min(ex, ex1) - width - 1e-9, max(ex, ex1) + width + 1e-9
        if "wf" not in mv:
            # shooting and the zero swap share the space L <= maxlength: the chain is exactly stationary on it
            lo, hi = ex - 1e-9, ex + 1e-9
        info[f"P(l{i + 1}|l{i})"] = dict(estimate=est, exact_M=ex, exact_M_minus_1=ex1, bound=bound, band=[lo, hi])
        if not (lo <= est <= hi):
            bad.append((f"chain:biased-estimate:{'/'.join(mv)}:{dynname}",
                        f"{key}: long-run estimate of P(lambda_{i + 1}|lambda_{i}) = {est:.6f} is outside the band [{lo:.6f}, {hi:.6f}] "
                        f"spanned by the exact values of the truncated path space ({ex:.6f} for L<=M, {ex1:.6f} for L<=M-1)"))
    return bad, info


def configs2(quick):
    out = [("drift", ("sh", "sh", "sh"), 8, None, 1), ("drift", ("sh", "wf", "sh"), 8, None, 1)]
    if not quick:
        out += [("sym", ("sh", "sh", "sh"), 8, None, 1), ("drift", ("sh", "wf", "wf"), 8, None, 1),
                ("drift", ("sh", "sh", "sh"), 10, None, 1), ("drift", ("sh", "wf", "sh"), 9, 1.5, 1)]
    return out


def run_part(ctx):
    n = 0
    procs = min(16, os.cpu_count() or 1)
    work = [(1, k) for k in configs(ctx.quick)] + [(2, k) for k in configs2(ctx.quick)]
    for W, key in work:
        r = solve(key, procs) if W == 1 else solve2(key, procs)
        bad, info = judge(key, r)
        bad = [(sig + (":W2" if W == 2 else ""), msg.replace("long-run", f"{W}-worker long-run")) for sig, msg in bad]
        key = key + (W,)
        if "error" not in r:
            n += r["steps"]
            ctx.coverage["chain_states"] = ctx.coverage.get("chain_states", 0) + r["states"]
            ctx.coverage["chain_transitions"] = ctx.coverage.get("chain_transitions", 0) + r["transitions"]
            ctx.distinct(("chain", key, r["states"]))
            ctx.note(f"chain {key}: states={r['states']} transitions={r['transitions']} irreducible={r['irreducible']} "
                     + " ".join(f"{k}: est={v['estimate']:.6f} exact={v['exact_M']:.6f} bound={v['bound']:.1e}" for k, v in info.items()))
            if len(ctx.samples) < 6:
                ctx.sample(dict(chain=[key[0], list(key[1]), key[2], key[3], key[4]], workers=W, states=r["states"], estimates=info))
        for sig, msg in bad:
            ctx.violation(sig, msg, dict(kind="chain", key=[key[0], list(key[1]), key[2], key[3], key[4]], W=W))
    for ch in list(_CHAIN.values()) + list(_CHAIN2.values()):
        ch.close()
    ctx.assume("joint chain: B=3, one worker and two workers with first-in-first-out completion (an outcome-independent schedule; states with in-flight jobs are entered through [current].locked + pick_lock); move outcomes come from the exact kernels of part (a) (run_md is a pure function of the job); "
               "the estimator is the running estimate a user computes from the data file, assembled from the increments the real treat_output adds to the accumulated weights (frac) at every step; acceptance band = interval between the exact values for L<=M and L<=M-1, widened by its width")
    return n


def replay(data):
    k = data["key"]
    key = (k[0], tuple(k[1]), k[2], k[3], k[4])
    W = data.get("W", 1)
    r = (solve if W == 1 else solve2)(key, min(16, os.cpu_count() or 1))
    bad, info = judge(key, r)
    return [(sig + (":W2" if W == 2 else ""), msg) for sig, msg in bad]


# ---------------------------------------------------------------------------
# two workers, first-in-first-out completion (an outcome-independent schedule)
# ---------------------------------------------------------------------------


class Chain2(Chain):
    """Joint chain with two workers.  State = (live paths by slot, ensembles of the older job, ensembles of the
    newer job); the older job always completes first.  States with in-flight jobs are entered through the real
    restart path: the jobs are listed in [current].locked and re-issued by pick_lock."""

    def __init__(self, dynname, mv, M, cap=None, n_jumps=1):
        super().__init__(dynname, mv, M, cap, n_jumps)
        self.cfg["runner"]["workers"] = 2

    def build_state2(self, s):
        from infretis.classes.repex import REPEX_state

        paths_, older, newer = s
        cfg = copy.deepcopy(self.cfg)
        cfg["current"]["locked"] = [[[e + 1 for e in job], [str(e + 1) for e in job]] for job in (older, newer)]
        scenario.reset_globals()
        l1.activate(True)
        st = REPEX_state(cfg, minus=True)
        st.traj_data = {}
        st.initiate_ensembles()
        paths = [lat.mk_path(sites, maxlen=self.M, generated=("sh", 0.0, 1, 1), number=k, tag=f"p{k}")
                 for k, sites in enumerate(paths_)]
        st.load_paths(paths)
        st.engine_occ = {"engine": [-1, -1]}
        st.pstore = l1.StubStore()
        self.md_items = {"mc_moves": st.mc_moves, "interfaces": st.interfaces, "cap": st.cap}
        mds = []
        while st.initiate():
            mds.append(st.prep_md_items(copy.deepcopy(self.md_items)))
        assert len(mds) == 2 and tuple(mds[0]["ens_nums"]) == tuple(older) and tuple(mds[1]["ens_nums"]) == tuple(newer)
        return st, mds

    def initial_states(self):
        """All outcomes of the two initial picks from the default initial paths."""
        from infretis.classes.repex import REPEX_state

        init = ((1, 0, 1), (0, 1, 0), (0, 1, 2, 1, 0))
        old = os.getcwd()
        os.chdir(self.wd)
        out = set()
        try:
            def fn(ch):
                sr.use(ch)
                cfg = copy.deepcopy(self.cfg)
                scenario.reset_globals()
                l1.activate(True)
                st = REPEX_state(cfg, minus=True)
                st.traj_data = {}
                st.initiate_ensembles()
                st.load_paths([lat.mk_path(sites, maxlen=self.M, generated=("sh", 0.0, 1, 1), number=k) for k, sites in enumerate(init)])
                st.engine_occ = {"engine": [-1, -1]}
                st.pstore = l1.StubStore()
                mi = {"mc_moves": st.mc_moves, "interfaces": st.interfaces, "cap": st.cap}
                mds = []
                while st.initiate():
                    mds.append(st.prep_md_items(copy.deepcopy(mi)))
                return (tuple(lat.sites(t) for t in st._trajs[:-1]), tuple(mds[0]["ens_nums"]), tuple(mds[1]["ens_nums"]))

            for ch, s in explore(fn):
                out.add(s)
        finally:
            os.chdir(old)
            l1.deactivate()
        return sorted(out)

    def expand2(self, s):
        old_cwd = os.getcwd()
        os.chdir(self.wd)
        try:
            paths_, older, newer = s
            olds = tuple(paths_[e + 1] for e in older)
            if len(older) == 1:
                K = self.kernel(older[0], olds[0])
                outcomes = [(pk, (new,) if new != olds[0] else None) for new, pk in K.items() if pk > 0]
            else:
                K = self.swap_kernel(olds[0], olds[1])
                outcomes = [(pk, new if new != (olds[0], olds[1]) else None) for new, pk in K.items() if pk > 0]
            out = {}
            terms = [[0.0, 0.0] for _ in range(self.B - 1)]
            for pk, new in outcomes:
                first = True

                def fn(ch, new=new):
                    sr.use(ch)
                    st, mds = self.build_state2(s)
                    md = mds[0]
                    status = "ACC" if new is not None else "FTL"
                    for k, e in enumerate(md["ens_nums"]):
                        trial = md["picked"][e]["traj"]
                        if new is not None:
                            trial = lat.mk_path(new[k], maxlen=self.M, generated=("sh", 0.0, 1, 1), tag="n")
                            trial.status = "ACC"
                            trial.weights = tis.calc_cv_vector(trial, md["interfaces"], md["mc_moves"],
                                                               md["picked"][e]["ens"]["tis_set"]["lambda_minus_one"],
                                                               cap=md["cap"], minus=e < 0)
                            md["picked"][e]["traj"] = trial
                        md["moves"].append("x")
                        md["trial_len"].append(trial.length)
                        md["trial_op"].append((0.0, 0.0))
                        md["generated"].append(trial.generated)
                    md.update({"status": status, "wmd_start": 0.0, "wmd_end": 0.0})
                    st.loop()
                    before = frac_snapshot(st)
                    st.treat_output(md)
                    rec = recorded_terms(st, before, self.B)
                    md2 = st.prep_md_items(md)
                    succ = (tuple(lat.sites(t) for t in st._trajs[:-1]), tuple(newer), tuple(md2["ens_nums"]))
                    return succ, rec

                for ch, (succ, rec) in explore(fn):
                    pp = ch.prob_float()
                    out[succ] = out.get(succ, 0.0) + pk * pp
                    if first:
                        # what the step records does not depend on the draw that follows it
                        first = False
                        for i in range(self.B - 1):
                            terms[i][0] += pk * rec[i][0]
                            terms[i][1] += pk * rec[i][1]
            return out, [tuple(t) for t in terms], len(outcomes)
        finally:
            os.chdir(old_cwd)
            l1.deactivate()


_CHAIN2 = {}


def _expand2_job(args):
    key, s = args
    ch = _CHAIN2.get(key)
    if ch is None:
        ch = _CHAIN2[key] = Chain2(*key)
    try:
        return s, ch.expand2(s)
    except Exception as e:  # noqa: BLE001
        import traceback

        tb = traceback.extract_tb(e.__traceback__)
        where = next((f"{os.path.basename(fr.filename)}:{fr.name}" for fr in reversed(tb) if "/infretis/" in fr.filename), "?")
        return s, ("error", f"{type(e).__name__} in {where} while stepping from joint state {s}: {e}")


def solve2(key, procs):
    import multiprocessing as mp

    ch0 = Chain2(*key)
    try:
        inits = ch0.initial_states()
    finally:
        ch0.close()
    states = {}
    order = []
    for s in inits:
        states[s] = len(order)
        order.append(s)
    rows, terms = {}, {}
    frontier = list(order)
    n_steps = 0
    with mp.get_context("fork").Pool(procs) as pool:
        while frontier:
            res = pool.map(_expand2_job, [(key, s) for s in frontier], chunksize=2)
            nxt = []
            for s, r_ in res:
                if r_[0] == "error":
                    return dict(error=r_[1])
                out, tr, nout = r_
                rows[s] = out
                terms[s] = tr
                n_steps += len(out)
                for t in out:
                    if t not in states:
                        states[t] = len(order)
                        order.append(t)
                        nxt.append(t)
            frontier = nxt
    n = len(order)
    T = np.zeros((n, n))
    for s, out in rows.items():
        tot = sum(out.values())
        if abs(tot - 1.0) > 1e-9:
            return dict(error=f"outgoing probabilities of state {s} sum to {tot}")
        for t, p in out.items():
            T[states[s], states[t]] += p
    A = T > 0

    def reach(M_, start):
        seen = {start}
        stack = [start]
        while stack:
            i = stack.pop()
            for j in np.nonzero(M_[i])[0]:
                if j not in seen:
                    seen.add(int(j))
                    stack.append(int(j))
        return seen

    # the initial picks may include transient states: judge the recurrent class reached from state 0
    fwd = reach(A, 0)
    rec = sorted(i for i in fwd if 0 in reach(A, i)) if n < 400 else None
    # stationary vector by power iteration (robust for a few thousand states)
    pi = np.full(n, 1.0 / n)
    for _ in range(20000):
        nxt = pi @ T
        if np.max(np.abs(nxt - pi)) < 1e-15:
            pi = nxt
            break
        pi = nxt
    pi = pi / pi.sum()
    resid = float(np.max(np.abs(pi @ T - pi)))
    support = int(np.sum(pi > 1e-14))
    # irreducibility of the support
    idx = np.nonzero(pi > 1e-14)[0]
    sub = A[np.ix_(idx, idx)]
    irreducible = len(reach(sub, 0)) == len(idx) and len(reach(sub.T, 0)) == len(idx)
    est = []
    for i in range(2):
        num = sum(pi[states[s]] * terms[s][i][0] for s in order)
        den = sum(pi[states[s]] * terms[s][i][1] for s in order)
        est.append(num / den if den else float("nan"))
    return dict(states=n, recurrent=support, transitions=int(A.sum()), steps=n_steps, irreducible=irreducible, pi_resid=resid,
                estimate=est)
