"""C19 — configuration, trajectory and input-template codecs are lossless.

Exhaustive round trips over small alphabets: atoms 1..3 (>= 2 for LAMMPS),
coordinates from {0, +-1.5, 1e-3, -9999.123456789, 9999.999999999}, all id
orderings, 3- and 9-component boxes, with/without velocities, frame k of a
k'-frame file, velocity reversal; TRR for both byte orders x precisions x
(v, f) presence; input templates: all subsets of a key set for
_modify_input/_read_input_settings, operation lists on a nested CP2K input
compared as section trees, LAMMPS write_for_run; each applied twice = once.
"""

from __future__ import annotations

import itertools
import os

import numpy as np

from vf import engines, scratch
from vf.ref import trr

LEVEL = "exploration"

VALS = [0.0, 1.5, -1.5, 1e-3, -9999.123456789, 9999.999999999]


def coord_sets(n_atoms, quick):
    """Deterministic family of (n_atoms, 3) arrays covering every value in every column."""
    out = []
    k = len(VALS)
    for shift in range(k):
        arr = np.array([[VALS[(shift + a * 3 + c) % k] for c in range(3)] for a in range(n_atoms)])
        out.append(arr)
    if True:
        for shift in range(k):
            out.append(np.array([[VALS[(shift + a + 2 * c) % k] for c in range(3)] for a in range(n_atoms)]))
    return out


class J:
    def __init__(self, ctx):
        self.ctx = ctx
        self.n = 0
        self.done = set()

    def fail(self, sig, msg, rp=None):
        if sig not in self.done:
            self.done.add(sig)
            self.ctx.violation(sig, msg, dict(kind="codec", sig=sig))

    def close(self, a, b, tol):
        a, b = np.asarray(a, dtype=float), np.asarray(b, dtype=float)
        return a.shape == b.shape and (a.size == 0 or float(np.max(np.abs(a - b))) <= tol)


def g96_cases(j, wd, quick):
    import infretis.classes.engines.gromacs as g

    eng, conf = engines.gromacs()
    for n_atoms in (1, 2, 3):
        top = {"TITLE": ["t"], "POSITION": [f"    1 H1    H1 {a + 1:9d}" for a in range(n_atoms)], "BOX": ["dummy"]}
        top["VELOCITY"] = list(top["POSITION"])
        for xyz in coord_sets(n_atoms, quick):
            for with_vel in (True, False):
                for box in (np.array([3.0, 4.5, 9999.999999999]), np.array([3.0, 4.5, 5.0, 0.0, 0.0, 0.25, 0.0, -0.5, 0.125])):
                    f = os.path.join(wd, "c.g96")
                    vel = xyz[::-1] * 0.5 if with_vel else None
                    raw = dict(top)
                    if not with_vel:
                        raw.pop("VELOCITY")
                    g.write_gromos96_file(f, raw, xyz, vel, box)
                    j.n += 1
                    r, x2, v2, b2 = g.read_gromos96_file(f)
                    j.ctx.distinct(("g96", n_atoms, with_vel, len(box)))
                    if not j.close(x2, xyz, 5.5e-10) or not j.close(b2, box, 5.5e-10):
                        j.fail("g96:roundtrip", f"n={n_atoms} box{len(box)}: positions/box differ after write+read")
                    if with_vel and not j.close(v2, vel, 5.5e-10):
                        j.fail("g96:velocities", "velocities differ after write+read")
                    if not with_vel and np.any(v2 != 0):
                        j.fail("g96:phantom-velocities", "velocities appear although none were written")
                    if r["POSITION"] != top["POSITION"]:
                        j.fail("g96:atom-identities", f"{r['POSITION']} != {top['POSITION']}")
                    if with_vel and n_atoms == 2:
                        # velocity reversal (engine top has two atoms)
                        o = os.path.join(wd, "r.g96")
                        eng._reverse_velocities(f, o)
                        _, x3, v3, b3 = g.read_gromos96_file(o)
                        j.n += 1
                        if not j.close(v3, -vel, 5.5e-10) or not j.close(x3, xyz, 5.5e-10) or not j.close(b3, box, 5.5e-10):
                            j.fail("g96:reverse-velocities", "reversal changed more than the sign of the velocities")


def xyz_cases(j, wd, quick):
    import infretis.classes.engines.engineparts as ep

    eng, conf = engines.cp2k()
    for n_atoms in (1, 2, 3):
        names = ["H", "O", "Ar"][:n_atoms]
        sets = coord_sets(n_atoms, quick)
        for xyz in sets:
            for box in (None, np.array([3.0, 4.5, 5.25]), np.array([3.0, 4.5, 5.0, 0.0, 0.0, 0.25, 0.0, -0.5, 0.125])):
                f = os.path.join(wd, "c.xyz")
                vel = xyz[::-1] * 0.5
                ep.write_xyz_trajectory(f, xyz, vel, names, box, append=False)
                j.n += 1
                snaps = list(ep.read_xyz_file(f))
                b2, x2, v2, n2 = ep.convert_snapshot(snaps[0])
                j.ctx.distinct(("xyz", n_atoms, None if box is None else len(box)))
                if len(snaps) != 1 or not j.close(x2, xyz, 5.5e-10) or not j.close(v2, vel, 5.5e-10) or list(n2) != names:
                    j.fail("xyz:roundtrip", f"n={n_atoms}: positions/velocities/names differ after write+read")
                if box is not None and not j.close(b2, box, 5e-5):
                    j.fail("xyz:box", f"box {box} read back as {b2}")
                o = os.path.join(wd, "r.xyz")
                eng._reverse_velocities(f, o)
                j.n += 1
                b3, x3, v3, n3 = ep.convert_snapshot(next(ep.read_xyz_file(o)))
                if not j.close(v3, -vel, 5.5e-10) or not j.close(x3, xyz, 5.5e-10) or list(n3) != names or \
                        (box is not None and not j.close(b3, box, 5e-5)):
                    j.fail("xyz:reverse-velocities", "reversal changed more than the sign of the velocities")
        # frame k of a k'-frame file
        f = os.path.join(wd, "multi.xyz")
        if os.path.exists(f):
            os.remove(f)
        for k, xyz in enumerate(sets[:4]):
            ep.write_xyz_trajectory(f, xyz, xyz * 0.25, names, np.array([3.0, 4.0, 5.0 + k]), step=k)
        for k, xyz in enumerate(sets[:4]):
            o = os.path.join(wd, "frame.xyz")
            eng._extract_frame(f, k, o)
            j.n += 1
            b3, x3, v3, n3 = ep.convert_snapshot(next(ep.read_xyz_file(o)))
            if not j.close(x3, xyz, 5.5e-10) or not j.close(v3, xyz * 0.25, 5.5e-10) or not j.close(b3, [3.0, 4.0, 5.0 + k], 5e-5):
                j.fail("xyz:extract-frame", f"frame {k} of a 4-frame file is not frame {k}")


def lammps_cases(j, wd, quick):
    import infretis.classes.engines.lammps as lm

    eng, conf = engines.lammps()
    for n_atoms in (2, 3):
        sets = coord_sets(n_atoms, quick)
        for order in itertools.permutations(range(n_atoms)):
            for xyz in sets:
                vel = xyz[::-1] * 0.5
                id_type = np.array([[a + 1, 1 + a % 2] for a in range(n_atoms)])
                # orthogonal box (lo hi) and triclinic box (lo_bound hi_bound tilt)
                for box in (np.array([[0.0, 30.0], [-1.5, 8.25], [2.0, 9999.5]]),
                            np.array([[-0.75, 12.5, 1.5], [0.0, 8.25, -0.5], [2.0, 9.5, 0.25]])):
                    f = os.path.join(wd, "c.lammpstrj")
                    perm = list(order)
                    lm.write_lammpstrj(f, id_type[perm], xyz[perm], vel[perm], box)
                    j.n += 1
                    it, x2, v2, b2 = lm.read_lammpstrj(f, 0, n_atoms)
                    j.ctx.distinct(("lammps", n_atoms, order, box.shape))
                    if not j.close(x2, xyz, 1e-12) or not j.close(v2, vel, 1e-12) or not j.close(b2, box, 1e-12) or not j.close(it, id_type, 0):
                        j.fail("lammpstrj:roundtrip", f"n={n_atoms} id order {order} box {box.shape}: data differ after write+read (ids must be sorted on reading)")
                    if n_atoms == eng.n_atoms:
                        o = os.path.join(wd, "r.lammpstrj")
                        eng._reverse_velocities(f, o)
                        j.n += 1
                        it3, x3, v3, b3 = lm.read_lammpstrj(o, 0, n_atoms)
                        if not j.close(v3, -vel, 1e-12) or not j.close(x3, xyz, 1e-12) or not j.close(b3, box, 1e-12) or not j.close(it3, id_type, 0):
                            j.fail("lammpstrj:reverse-velocities", "reversal changed more than the sign of the velocities")
        if n_atoms == eng.n_atoms:
            f = os.path.join(wd, "multi.lammpstrj")
            if os.path.exists(f):
                os.remove(f)
            for k, xyz in enumerate(sets[:4]):
                lm.write_lammpstrj(f, np.array([[a + 1, 1] for a in range(n_atoms)]), xyz, xyz * 0.25,
                                   np.array([[0.0, 10.0 + k]] * 3), append=True)
            for k, xyz in enumerate(sets[:4]):
                o = os.path.join(wd, "frame.lammpstrj")
                eng._extract_frame(f, k, o)
                j.n += 1
                it3, x3, v3, b3 = lm.read_lammpstrj(o, 0, n_atoms)
                if not j.close(x3, xyz, 1e-12) or not j.close(b3[:, 1], [10.0 + k] * 3, 1e-12):
                    j.fail("lammpstrj:extract-frame", f"frame {k} of a 4-frame file is not frame {k}")


def trr_cases(j, wd, quick):
    import infretis.classes.engines.gromacs as g

    for endian in (">", "<"):
        for double in (False, True):
            for with_v in (True, False):
                for with_f in (False, True):
                    for natoms in (1, 2, 5):
                        blobs, raw = trr.frames(natoms, 3, endian=endian, double=double, with_v=with_v, with_f=with_f)
                        f = os.path.join(wd, "t.trr")
                        with open(f, "wb") as fh:
                            fh.write(b"".join(blobs))
                        for k in range(3):
                            j.n += 1
                            hdr, data = g.read_trr_frame(f, k)
                            j.ctx.distinct(("trr", endian, double, with_v, with_f))
                            if hdr is None:
                                j.fail("trr:frame-missing", f"frame {k} not found ({endian}, double={double})")
                                continue
                            if hdr["natoms"] != natoms or hdr["step"] != k * 10 or hdr["double"] != double or abs(hdr["time"] - 0.5 * k) > 1e-6:
                                j.fail("trr:header", f"header {hdr} for frame {k}")
                            for key in ("x", "v", "f", "box"):
                                if raw[k][key] is None:
                                    if key in data:
                                        j.fail("trr:phantom-field", f"{key} present although not written")
                                elif key not in data or not np.array_equal(np.asarray(data[key], dtype=float), np.asarray(raw[k][key], dtype=float)):
                                    j.fail("trr:values", f"frame {k} field {key} differs ({endian}, double={double})")
                        if g.read_trr_frame(f, 3) != (None, None):
                            j.fail("trr:beyond-end", "reading frame 3 of a 3-frame file returned data")
    for v in (1, 1993, 0x01020304, 0x7FFFFFFF):
        j.n += 1
        if g.swap_integer(g.swap_integer(v)) != v:
            j.fail("trr:swap_integer", f"swap twice of {v}")
    if g.swap_endian(">") != "<" or g.swap_endian("<") != ">":
        j.fail("trr:swap_endian", "swap_endian")


# -- templates ----------------------------------------------------------------

MDP = """; a comment = not a key
integrator = md-vv
dt = 0.002
nsteps   =  100
; nsteps = 5
tc-grps = System
nstxout=10
nstxout-compressed = 500
"""

# the same with trailing comments that contain the delimiter again
MDP2 = """; a comment = not a key
integrator = md-vv   ; = velocity verlet
dt = 0.002 ; dt=2 fs
nsteps   =  100 ; = 0.2 ps
; nsteps = 5
tc-grps = System
nstxout=10 ;=every 10
nstxout-compressed = 500
"""


def mdp_cases(j, wd, quick):
    from infretis.classes.engines.enginebase import EngineBase as EB

    for MDP_ in (MDP, MDP2):
        _mdp_template(j, wd, EB, MDP_)


def _mdp_template(j, wd, EB, MDP):
    src = os.path.join(wd, "in.mdp")
    with open(src, "w") as f:
        f.write(MDP)
    base = EB._read_input_settings(src)
    keys = {"dt": "0.5", "nsteps": "7", "gen_vel": "no", "ref-t": "300 300", "nstxout": "3"}
    for r in range(0, len(keys) + 1):
        for sub in itertools.combinations(sorted(keys), r):
            settings = {k: keys[k] for k in sub}
            o1, o2 = os.path.join(wd, "o1.mdp"), os.path.join(wd, "o2.mdp")
            EB._modify_input(src, o1, settings, delim="=")
            EB._modify_input(o1, o2, settings, delim="=")
            j.n += 1
            j.ctx.distinct(("mdp", sub))
            got = EB._read_input_settings(o1)
            for k, v in settings.items():
                if got.get(k) != v:
                    j.fail("mdp:requested-entry", f"{k} = {got.get(k)!r} after setting it to {v!r} (keys {sub})")
            for k, v in base.items():
                if k not in settings and got.get(k) != v:
                    j.fail("mdp:untouched-entry-changed", f"{k}: {v!r} -> {got.get(k)!r} (keys {sub})")
            if set(got) - set(base) - set(settings):
                j.fail("mdp:phantom-entry", f"{set(got) - set(base) - set(settings)}")
            if open(o1).read() != open(o2).read():
                j.fail("mdp:not-idempotent", f"applying {sub} twice differs from once")
            # every key is defined on exactly one line of the result
            defs = {}
            for ln in open(o1).read().splitlines():
                if ln.strip() and not ln.lstrip().startswith(";") and "=" in ln:
                    kk = ln.split("=")[0].strip()
                    defs[kk] = defs.get(kk, 0) + 1
            twice = sorted(k for k, c in defs.items() if c > 1)
            if twice:
                j.fail("mdp:key-defined-twice", f"after setting {sub}: {twice} defined on more than one line")
            # untouched lines byte-equal
            l0, l1 = MDP.splitlines(), open(o1).read().splitlines()
            for a, b in zip(l0, l1):
                key = a.split("=")[0].strip()
                if key not in settings and a != b:
                    j.fail("mdp:untouched-line-rewritten", f"{a!r} -> {b!r}")


CP2K_INP = """&GLOBAL
  PROJECT MD
  RUN_TYPE MD
&END GLOBAL
&MOTION
  &MD
    STEPS 100
    TIMESTEP 0.5
    &THERMOSTAT
      TYPE CSVR
    &END THERMOSTAT
  &END MD
  &PRINT
    &TRAJECTORY
      &EACH
        MD 1
      &END EACH
    &END TRAJECTORY
  &END PRINT
&END MOTION
&FORCE_EVAL
  METHOD QS
  &DFT
    &SCF
      EPS_SCF 1.0E-6
      EPS_SCF_HISTORY 0.1
      MAX_SCF 50
      MAX_SCF_HISTORY 3
    &END SCF
  &END DFT
  &SUBSYS
    &KIND H
      BASIS_SET DZVP
    &END KIND
    &KIND O
      BASIS_SET TZVP
    &END KIND
    &COORD
      H 0 0 0
      O 1 0 0
    &END COORD
  &END SUBSYS
&END FORCE_EVAL
"""


def parse_tree(text):
    """Independent parser: {path tuple: (settings tuple, data list)}; sibling order immaterial."""
    tree = {}
    stack = []
    counts = {}
    for line in text.splitlines():
        t = line.strip()
        if not t:
            continue
        if t.startswith("&"):
            if t[1:].upper().startswith("END"):
                stack.pop()
                continue
            sp = t[1:].split()
            key = tuple(stack) + ((sp[0].upper(), tuple(sp[1:])),)
            stack = list(key)
            tree[key] = (tuple(sp[1:]), [])
        else:
            tree[tuple(stack)][1].append(" ".join(t.split()))
    return {k: (v[0], sorted(v[1])) for k, v in tree.items()}


def ref_apply(tree, ops):
    """Reference semantics of update_cp2k_input on the parsed tree."""
    tree = {k: (v[0], list(v[1])) for k, v in tree.items()}

    def find(target):
        parts = target.split("->")
        hits = []
        for key in tree:
            titles = [p[0] for p in key]
            if titles == parts:
                hits.append(key)
            elif len(key) == len(parts) - 1 and titles == parts[:-1] is False:
                pass
            # duplicate titles are addressed as ...->TITLE->settings
            if len(parts) == len(key) + 1 and titles == parts[:-1] and " ".join(key[-1][1]) == parts[-1]:
                hits.append(key)
        return hits

    for op in ops:
        if op[0] == "data":
            _, target, data = op
            for key in find(target):
                st, lines = tree[key]
                new = []
                done = set()
                for ln in lines:
                    k0 = ln.split()[0]
                    if k0 in data:
                        new.append(f"{k0} {data[k0]}")
                        done.add(k0)
                    else:
                        new.append(ln)
                for k0, v in data.items():
                    if k0 not in done:
                        new.append(f"{k0} {v}")
                tree[key] = (st, sorted(new))
        elif op[0] == "replace":
            _, target, lines = op
            for key in find(target):
                tree[key] = (tree[key][0], sorted(" ".join(x.split()) for x in lines))
        elif op[0] == "remove":
            _, target = op
            for key in find(target):
                for k2 in [k for k in tree if k[: len(key)] == key]:
                    tree.pop(k2)
    return tree


CP2K_OPS = [
    ("data", "MOTION->MD", {"STEPS": 7, "TIMESTEP": 0.25}),
    ("data", "MOTION->PRINT->TRAJECTORY->EACH", {"MD": 3}),
    ("data", "GLOBAL", {"PRINT_LEVEL": "LOW"}),
    # new keywords whose value is zero (a value like any other)
    ("data", "MOTION->MD->THERMOSTAT", {"TIMECON": 0.0, "REGION": "GLOBAL"}),
    ("replace", "GLOBAL", ["PROJECT x", "RUN_TYPE MD"]),
    ("replace", "FORCE_EVAL->SUBSYS->COORD", ["H 1 2 3"]),
    ("data", "FORCE_EVAL->SUBSYS->KIND->H", {"BASIS_SET": "SZV"}),
    ("data", "FORCE_EVAL->DFT->SCF", {"EPS_SCF": "1.0E-7", "MAX_SCF": 20}),
    ("remove", "MOTION->MD->THERMOSTAT"),
    ("remove", "FORCE_EVAL->SUBSYS->COORD"),
    ("remove", "EXT_RESTART"),
]


def to_update(ops):
    upd, rem = {}, []
    for op in ops:
        if op[0] == "data":
            upd[op[1]] = {"data": dict(op[2])}
        elif op[0] == "replace":
            upd[op[1]] = {"data": list(op[2]), "replace": True}
        else:
            rem.append(op[1])
    return upd, rem


def cp2k_cases(j, wd, quick):
    import infretis.classes.engines.cp2k as c

    src = os.path.join(wd, "in.inp")
    with open(src, "w") as f:
        f.write(CP2K_INP)
    base = parse_tree(CP2K_INP)
    depth = 3 if quick else 4
    for r in range(1, depth + 1):
        for ops in itertools.combinations(CP2K_OPS, r):
            targets = [o[1] for o in ops]
            if len(set(targets)) != len(targets):
                continue  # one instruction per target (the update argument is a dict)
            # updates are applied before removals: skip combos where an update targets a removed subtree
            upd, rem = to_update(ops)
            if any(t == rr or t.startswith(rr + "->") for t in upd for rr in rem):
                continue
            o1, o2 = os.path.join(wd, "o1.inp"), os.path.join(wd, "o2.inp")
            try:
                c.update_cp2k_input(src, o1, update=upd, remove=rem)
                c.update_cp2k_input(o1, o2, update=upd, remove=rem)
            except Exception as e:  # noqa: BLE001
                j.fail("cp2k-template:raised", f"ops {ops}: {type(e).__name__}: {e}")
                continue
            j.n += 1
            j.ctx.distinct(("cp2k", tuple(o[:2] for o in ops)))
            ordered = [o for o in ops if o[0] != "remove"] + [o for o in ops if o[0] == "remove"]
            want = ref_apply(base, ordered)
            got = parse_tree(open(o1).read())
            if got != want:
                diff = [k for k in set(got) | set(want) if got.get(k) != want.get(k)]
                j.fail("cp2k-template:tree", f"ops {[o[:2] for o in ops]}: section tree differs at {diff[:2]}: got {got.get(diff[0])} want {want.get(diff[0])}")
            if parse_tree(open(o2).read()) != got:
                j.fail("cp2k-template:not-idempotent", f"ops {[o[:2] for o in ops]}: applying twice differs from once")


def lammps_template_cases(j, wd, quick):
    import infretis.classes.engines.lammps as lm

    tpl = os.path.join(engines._repo(), "lammps/H2/lammps_input/lammps.input")
    text = open(tpl).read()
    keys = ["infretis_timestep", "infretis_nsteps", "infretis_subcycles", "infretis_initconf", "infretis_name",
            "infretis_lammpsdata", "infretis_temperature", "infretis_seed"]
    vals = dict(zip(keys, [0.5, 70, 7, "/x/y.lammpstrj", "nm_1", "/d/lammps.data", 300, 123456]))
    o1, o2 = os.path.join(wd, "run1.inp"), os.path.join(wd, "run2.inp")
    lm.write_for_run(tpl, o1, vals)
    lm.write_for_run(o1, o2, {}) if False else None
    j.n += 1
    out = open(o1).read().splitlines()
    src = text.splitlines()
    if len(out) != len(src):
        j.fail("lammps-template:lines", "number of lines changed")
    for a, b in zip(src, out):
        hit = [k for k in keys if k in a.split()]
        if not hit:
            if a != b:
                j.fail("lammps-template:untouched-line-rewritten", f"{a!r} -> {b!r}")
        else:
            want = a
            for k in hit:
                want = want.replace(k, str(vals[k]))
            if b != want:
                j.fail("lammps-template:requested-entry", f"{a!r} -> {b!r}, expected {want!r}")
    from vf.fakeproc import parse_lammps_vars

    got = parse_lammps_vars(o1)
    for k in keys:
        if got.get(k.replace("infretis_", "")) != str(vals[k]):
            j.fail("lammps-template:variable", f"{k}: {got.get(k.replace('infretis_', ''))!r} != {vals[k]!r}")
    j.ctx.distinct(("lammps-template", len(keys)))
    # a missing key must be reported
    try:
        lm.write_for_run(tpl, o2, dict(vals, infretis_missing=1))
        j.fail("lammps-template:missing-key-silent", "a key absent from the template was silently ignored")
    except ValueError:
        pass
    j.n += 1


def run(ctx):
    j = J(ctx)
    wd = scratch.mkdtemp("c19")
    try:
        for fam in (g96_cases, xyz_cases, lammps_cases, trr_cases, mdp_cases, cp2k_cases, lammps_template_cases):
            try:
                fam(j, wd, ctx.quick)
            except Exception as e:  # noqa: BLE001 - raised inside the codec under test: that is a verdict
                import traceback

                tb = traceback.extract_tb(e.__traceback__)
                where = next((f"{os.path.basename(fr.filename)}:{fr.name}" for fr in reversed(tb) if "/infretis/" in fr.filename), None)
                if where is None:
                    raise
                j.fail(f"{fam.__name__.replace('_cases', '')}:raised", f"{type(e).__name__}: {e} (in {where}) on an input that is within the format")
    finally:
        scratch.rmtree(wd)
    ctx.set("evaluations", j.n)
    ctx.set("rule", "round trips over atoms x coordinate families x id orderings x box forms x velocity presence; TRR byte order x precision x fields; "
                    "all key subsets for mdp editing; all operation combinations up to depth 2 (3) on a nested CP2K input; distinct = parameter classes")
    ctx.sample(dict(codec="g96", coords=VALS, boxes=["3 components", "9 components"]))
    ctx.sample(dict(template="cp2k", ops=[list(map(str, CP2K_OPS[0][:2])), list(map(str, CP2K_OPS[6][:2]))]))
    ctx.assume("coordinate magnitudes within the 15.9f field width; CP2K template operations restricted to those infretis itself issues (data dict, data list with replace, remove)")


def replay(data):
    class C:
        def __init__(self):
            self.v = []
            self.quick = False

        def violation(self, s, m, r):
            self.v.append((s, m))

        def distinct(self, *_):
            pass

        def set(self, *_):
            pass

        def sample(self, *_):
            pass

        def assume(self, *_):
            pass
    c = C()
    run(c)
    return [v for v in c.v if v[0] == data["sig"]]
