"""C12: CP2K and GROMACS engines against fake programs (see checks/c12.py)."""
from __future__ import annotations

import os

import numpy as np

from vf import engines, fakeproc, scratch, watchdog
from vf.explore import Chooser, explore

from checks.c12 import pbc_distance, reference

CASES = {
    "cp2k": [
        dict(d0=3.0, v=0.5, box0=30.0, boxes=None, intf=(2.0, 3.0, 4.4), maxlen=6, sub=1),
        dict(d0=3.0, v=-0.25, box0=30.0, boxes=None, intf=(2.2, 3.0, 9.0), maxlen=5, sub=2),
        dict(d0=3.0, v=0.5, box0=30.0, boxes=None, intf=(-9.0, 0.0, 9.0), maxlen=4, sub=1, op="distvel"),
    ],
    "gromacs": [
        dict(d0=1.0, v=0.25, box0=3.0, boxes=[3.0], intf=(0.4, 1.0, 1.45), maxlen=6, sub=1),
        dict(d0=1.25, v=0.125, box0=3.0, boxes=[4.0, 3.0], intf=(0.4, 1.0, 1.9), maxlen=5, sub=1),
        dict(d0=1.0, v=-0.125, box0=3.0, boxes=[2.0, 3.0], intf=(0.45, 1.0, 2.5), maxlen=6, sub=2),
        dict(d0=1.0, v=0.25, box0=3.0, boxes=[3.0], intf=(-9.0, 0.0, 9.0), maxlen=4, sub=1, op="distvel"),
    ],
}
MENUS = {
    "cp2k": ("frame", "pos", "vel", "2frames", "stay", "finish", "die", "sig"),
    "gromacs": ("frame", "2frames", "stay", "finish", "die", "sig"),
}


def run_one(kind, ch, case, reverse, wd, menu):
    from infretis.classes.engines import enginebase as ebmod
    from infretis.classes.orderparameter import Distance
    from infretis.classes.path import Path
    from infretis.classes.system import System

    for f in os.listdir(wd):
        os.remove(os.path.join(wd, f))
    progs = []
    pos = np.array([[1.0, 0.5, 0.25], [1.0 + case["d0"], 0.5, 0.25]])
    vel = np.array([[0.0, 0.0, 0.0], [case["v"], 0.0, 0.0]])
    if kind == "cp2k":
        import infretis.classes.engines.cp2k as mod
        from infretis.classes.engines.engineparts import write_xyz_trajectory

        eng, _ = engines.cp2k()
        conf = os.path.join(wd, "init.xyz")
        write_xyz_trajectory(conf, pos, vel, ["H", "H"], None, append=False)
        world = fakeproc.World(ch, lambda cmd, cwd: fakeproc.Cp2kProgram(cmd, cwd, record=progs), menu=menu)
        world.patch(mod)
        box_len = np.array([30.0, 30.0, 30.0])
    else:
        import infretis.classes.engines.gromacs as mod

        eng, _ = engines.gromacs()
        conf = os.path.join(wd, "init.g96")
        mod.write_gromos96_file(conf, eng.top, pos, vel, np.array([case["box0"]] * 3))
        registry = {}
        boxes = [np.array([b, b, b]) for b in case["boxes"]]
        world = fakeproc.World(ch, lambda cmd, cwd: fakeproc.GmxProgram(cmd, cwd, boxes=boxes, record=progs, registry=registry), menu=menu)
        world.patch(mod)
        world.patch(ebmod)
        eng.set_mdrun({"wmdrun": "gmx mdrun", "exe_dir": wd})
        box_len = None
    eng.exe_dir = wd
    eng.order_function = Distance((0, 1), periodic=True)
    if case.get("op") == "distvel":
        from infretis.classes.orderparameter import Distancevel

        eng.order_function = Distancevel((0, 1), periodic=True)
    eng.rgen = np.random.default_rng(5)
    eng.subcycles = case["sub"]
    path = Path(maxlen=case["maxlen"])
    s = System()
    s.set_pos((conf, 0))
    s.vel_rev = False
    ens = {"interfaces": case["intf"], "ens_name": "001", "tis_set": {}}
    raised = None
    success = None
    try:
        with watchdog.limit(20):
            success, status = eng.propagate(path, ens, s, reverse=reverse)
    except RuntimeError as e:
        raised = str(e)
    except watchdog.Hang as e:
        raised = "HANG: " + str(e)
    except Exception as e:  # noqa: BLE001 - any other exception is judged like a raise
        raised = f"{type(e).__name__}: {e}"
    finally:
        world.unpatch()
    return dict(path=path, success=success, raised=raised, world=world, prog=progs[0] if progs else None, eng=eng,
                box_len=box_len, wd=wd)


def judge(kind, r, case, reverse):
    bad = []
    prog = r["prog"]
    if prog is None:
        return [("no-program-started", "the MD program was never started")]
    if r["raised"] is not None and r["raised"].startswith("HANG"):
        return [("hang", r["raised"])]
    procs = [p for p in r["world"].procs if p.program is prog]
    proc = procs[0]
    left, _, right = case["intf"]
    sub = prog.each if kind == "cp2k" else prog.nst
    frames = [prog.flight.frame(k, sub) for k in range(prog.nframes)]
    if kind == "cp2k":
        frames = [(p, v, np.array([[0.0, 30.0]] * 3)) for (p, v, b) in frames]
    else:
        frames = [(p, v, np.array([[0.0, b[0, 0]], [0.0, b[1, 1]], [0.0, b[2, 2]]])) for (p, v, b) in frames]
    ref_orders, ref_success = reference(frames, left, right, case["maxlen"], op=case.get("op", "dist"), vel_rev=reverse)
    written = min(prog.kp, prog.kv) if kind == "cp2k" else len(prog.written)
    died = proc.returncode not in (0, None) and not proc.killed
    if r["raised"] is not None:
        if not died:
            bad.append(("raised-without-failure", f"propagate raised although the program did not fail: {r['raised'][:80]}"))
        return bad
    path = r["path"]
    got = [float(pp.order[0]) for pp in path.phasepoints]
    if died and written < len(ref_orders):
        bad.append(("failure-not-raised", f"program died with rc={proc.returncode} after {written} complete frames; propagate returned "
                    f"{len(got)} frames instead of raising (complete path has {len(ref_orders)})"))
        return bad
    if proc.returncode is None:
        bad.append(("program-left-running", "propagate returned while the external program is still running"))
    if len(got) != len(ref_orders):
        bad.append(("path-length", f"path has {len(got)} frames, the trajectory run gives {len(ref_orders)} (orders {got} vs {ref_orders})"))
    else:
        for k, (a, b) in enumerate(zip(got, ref_orders)):
            if abs(a - b) > 1e-6:
                bad.append(("order-not-from-own-frame", f"frame {k}: stored order {a}, frame {k} as written gives {b}; stored {got} expected {ref_orders}"))
                break
        if bool(r["success"]) != bool(ref_success):
            bad.append(("success-flag", f"success={r['success']} but the path {'crossed' if ref_success else 'hit the length limit'}"))
    # frame references: the k-th frame points at frame k of one trajectory file that holds frame k as run
    files = {pp.config[0] for pp in path.phasepoints}
    if len(files) > 1 or [pp.config[1] for pp in path.phasepoints] != list(range(len(got))):
        bad.append(("frame-reference", f"frames reference {[pp.config for pp in path.phasepoints][:4]}"))
    elif got:
        tf = next(iter(files))
        try:
            for k in range(len(got)):
                if kind == "cp2k":
                    from infretis.classes.engines.engineparts import convert_snapshot, read_xyz_file

                    snap = list(read_xyz_file(tf))[k]
                    _, xyz, v_, _ = convert_snapshot(snap)
                else:
                    from infretis.classes.engines.gromacs import read_trr_frame

                    _, data = read_trr_frame(tf, k)
                    xyz, v_ = data["x"], data["v"]
                if np.max(np.abs(xyz - frames[k][0])) > 1e-5 or np.max(np.abs(v_ - frames[k][1])) > 1e-5:
                    bad.append(("referenced-frame-differs", f"frame {k} of {os.path.basename(tf)} is not the {k}-th frame that was run"))
                    break
        except Exception as e:  # noqa: BLE001
            bad.append(("referenced-frame-unreadable", f"{type(e).__name__}: {e}"))
    for k, pp in enumerate(path.phasepoints):
        if bool(pp.vel_rev) != bool(reverse):
            bad.append(("velocity-flag", f"frame {k} vel_rev={pp.vel_rev} for reverse={reverse}"))
            break
    return bad


def _job(args):
    kind, ci, reverse, max_dev, first = args
    case = CASES[kind][ci]
    menu = MENUS[kind]
    wd = scratch.mkdtemp("c12e")
    viols = {}
    n = 0
    shapes = set()
    try:
        def fn(ch):
            r = run_one(kind, ch, case, reverse, wd, menu)
            return judge(kind, r, case, reverse), len(r["path"].phasepoints), r["raised"] is not None

        for ch, (bad, plen, raised) in explore(fn, max_dev=max_dev, prefix=[first]):
            n += 1
            shapes.add((tuple(ch.choices), plen, raised))
            for clause, msg in bad:
                viols.setdefault(f"{kind}:{clause}", (f"case {ci} reverse={reverse} schedule {[menu[c] for c in ch.choices]}: {msg}",
                                                      dict(kind="ext", engine=kind, ci=ci, reverse=reverse, choices=ch.choices)))
    finally:
        scratch.rmtree(wd)
    return (kind, ci, reverse, first), n, len(shapes), viols


def run_part(ctx):
    import multiprocessing as mp

    jobs = []
    for kind in ("cp2k", "gromacs"):
        for ci in range(len(CASES[kind])):
            for reverse in (False, True):
                for first in range(len(MENUS[kind])):
                    dev = (3 if ctx.quick else 5) if kind == "cp2k" else (4 if ctx.quick else None)
                    jobs.append((kind, ci, reverse, dev, first))
    with mp.get_context("fork").Pool(min(16, os.cpu_count() or 1)) as pool:
        res = pool.map(_job, jobs, chunksize=1)
    n = 0
    for key, k, shapes, viols in res:
        n += k
        ctx.distinct((key, shapes))
        for sig, (msg, rp) in viols.items():
            ctx.violation(sig, msg, rp)
    ctx.set("cp2k_gromacs_schedules", n)
    ctx.coverage["extra_states"] = ctx.coverage.get("extra_states", 0) + len(jobs)
    if any(j[3] is not None for j in jobs):
        ctx.exhaustive = False
        ctx.caps.append("CP2K schedules (7-way menu per poll) explored up to a deviation bound (also GROMACS in the quick tier); LAMMPS schedules are complete")
    return n


def replay(data):
    kind = data["engine"]
    case = CASES[kind][data["ci"]]
    wd = scratch.mkdtemp("c12er")
    try:
        r = run_one(kind, Chooser(data["choices"]), case, data["reverse"], wd, MENUS[kind])
        return [(f"{kind}:{c}", m) for c, m in judge(kind, r, case, data["reverse"])]
    finally:
        scratch.rmtree(wd)
