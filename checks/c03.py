"""C03 — a busy ensemble, path, engine or work directory is never shared.

Breadth-first closure of the scheduler state machine (vf/l1.py) on the real
REPEX_state: workers 1..n_ens-1, every completion order, every abstract
outcome, every outcome of the real pick (weighted choice, coin, partner).
Mutual-exclusion invariants are evaluated at every pick and in every state.
"""

from __future__ import annotations

import os

from vf import l1

LEVEL = "model_checking"


class MutexObserver(l1.Observer):
    def on_pick(self, run, md, before, rec):
        st = run.state
        off = st._offset
        ens = tuple(md["ens_nums"])
        for e in ens:
            slot = e + off
            if before["locks"][slot] != 0:
                raise l1.Violation("pick:busy-ensemble", f"job {rec} was given ensemble {e} which was busy")
            traj = md["picked"][e]["traj"]
            rows = [k for k, t in enumerate(before["trajs"]) if t is traj]
            if len(rows) != 1:
                raise l1.Violation("pick:unknown-path", f"job {rec}: path object not found among live paths")
            if before["locks"][rows[0]] != 0:
                raise l1.Violation("pick:busy-path", f"job {rec} was given path {traj.path_number} held by another job")
            if not before["W"][rows[0]][slot] != 0:
                raise l1.Violation("pick:zero-weight", f"job {rec}: path {traj.path_number} has zero weight in ensemble {e}")
        if len(ens) == 2:
            if set(ens) != {-1, 0}:
                raise l1.Violation("pick:bad-pair", f"two-ensemble job on {ens}")
        elif len(ens) != 1:
            raise l1.Violation("pick:bad-arity", f"job on {ens}")

    def on_state(self, run):
        st = run.state
        off = st._offset
        held_ens = {}
        held_paths = {}
        pins = {}
        folders = {}
        engs = {}
        for md in run.inflight:
            for e, pn in zip(md["ens_nums"], md["pnum_old"]):
                if e in held_ens:
                    raise l1.Violation("state:ensemble-shared", f"ensemble {e} held by two in-flight jobs")
                held_ens[e] = md["pin"]
                if pn in held_paths:
                    raise l1.Violation("state:path-shared", f"path {pn} held by two in-flight jobs")
                held_paths[pn] = md["pin"]
                slot = e + off
                if st._trajs[slot].path_number != pn:
                    raise l1.Violation("state:held-path-moved",
                                       f"job holds path {pn} in ensemble {e} but slot has {st._trajs[slot].path_number}")
            if md["pin"] in pins:
                raise l1.Violation("state:pin-shared", f"pin {md['pin']} used by two in-flight jobs")
            pins[md["pin"]] = 1
            wf = md.get("w_folder")
            if wf in folders:
                raise l1.Violation("state:workdir-shared", f"work directory {wf} used by two in-flight jobs")
            folders[wf] = 1
            seen_here = set()
            for e in md["ens_nums"]:
                if md["picked"][e]["exe_dir"] != wf:
                    raise l1.Violation("state:exe-dir", "job's exe_dir differs from its w_folder")
                for name, idx in md["picked"][e]["eng_idx"].items():
                    key = (name, idx)
                    if key in engs and key not in seen_here:
                        raise l1.Violation("state:engine-shared", f"engine instance {key} used by two in-flight jobs")
                    engs[key] = md["pin"]
                    seen_here.add(key)
                    if st.engine_occ[name][idx] != md["pin"]:
                        raise l1.Violation("state:engine-occ", f"engine_occ[{name}][{idx}]={st.engine_occ[name][idx]} but job pin {md['pin']}")
        for slot in range(st.n - 1):
            busy = (slot - off) in held_ens
            if bool(st._locks[slot]) != busy:
                raise l1.Violation("state:lock-mismatch",
                                   f"ensemble {slot - off}: marked busy={bool(st._locks[slot])} but held={busy}")
        if st._locks[st.n - 1] != 1:
            raise l1.Violation("state:ghost-unlocked", "ghost ensemble unlocked")
        # the in-flight jobs recorded for a restart are exactly the jobs in flight
        rec = sorted((tuple(l[0]), tuple(str(x) for x in l[1])) for l in st.locked)
        act = sorted((tuple(md["ens_nums"]), tuple(str(x) for x in md["pnum_old"])) for md in run.inflight)
        if rec != act:
            raise l1.Violation("state:recorded-inflight-jobs", f"recorded for restart {rec}, actually in flight {act}")
        want = max(0, min(st.workers, st.tsteps - st.cstep))
        if len(run.inflight) != want:
            raise l1.Violation("state:inflight-count", f"{len(run.inflight)} jobs in flight with {st.workers} workers and {st.tsteps - st.cstep} steps left")


def specs(ctx):
    out = []
    for B in (2, 3, 4):
        for W in range(1, B):
            for layout in ("single", "engine0"):
                out.append(l1.Spec(B=B, workers=W, engine_layout=layout))
    # an ensemble that lists two engine types (and [0-] on a type of its own)
    out.append(l1.Spec(B=3, workers=2, engine_layout="multi"))
    if not ctx.quick:
        out.append(l1.Spec(B=4, workers=3, engine_layout="multi"))
        for W in (1, 2, 3, 4):
            out.append(l1.Spec(B=5, workers=W))
        out.append(l1.Spec(B=4, workers=2, moves=["sh", "sh", "wf", "wf"], alphabet="ha"))
        out.append(l1.Spec(B=4, workers=3, moves=["sh", "wf", "wf", "sh"], alphabet="ha", cap=2.5))
    out.append(l1.Spec(B=3, workers=2, moves=["sh", "wf", "wf"], alphabet="ha"))
    # a long-running simulation: path numbers that are prefixes / substrings of one another
    out.append(l1.Spec(B=4, workers=2, labels=[1, 10, 11, 100]))
    out.append(l1.Spec(B=3, workers=2, labels=[21, 2, 1]))
    # closures that also contain: kill + restart at any moment, the last steps of a run (no new job is
    # drawn), restarts with a budget smaller than the worker count, extension of a finished run
    out.append(l1.Spec(B=3, workers=2, restarts=True))
    out.append(l1.Spec(B=4, workers=3, restarts=True))
    out.append(l1.Spec(B=3, workers=2, moves=["sh", "wf", "wf"], alphabet="ha", restarts=True))
    if not ctx.quick:
        out.append(l1.Spec(B=3, workers=1, restarts=True))
        out.append(l1.Spec(B=4, workers=2, restarts=True))
        out.append(l1.Spec(B=4, workers=2, restarts=True, engine_layout="engine0"))
        out.append(l1.Spec(B=4, workers=3, moves=["sh", "wf", "wf", "sh"], alphabet="ha", restarts=True))
        out.append(l1.Spec(B=5, workers=3, restarts=True))
    return out


def _job(args):
    spec_json, max_states = args
    spec = l1.spec_from_json(spec_json)
    nz = set()

    def on_tr(c):
        # non-vacuity: states with a zero swap in flight / two jobs in flight
        jobs = c[2]
        if any(len(j[1]) == 2 for j in jobs):
            nz.add("zero-swap-in-flight")
        if len(jobs) >= 2:
            nz.add("two-jobs-in-flight")

    stats, viols = l1.bfs(spec, lambda: [MutexObserver()], max_states=max_states, on_transition=on_tr,
                          procs=min(16, os.cpu_count() or 1))
    stats["flags"] = sorted(nz)
    return spec_json, stats, viols


def run(ctx, observer_factory=None, jobfn=None):
    import multiprocessing as mp

    sp = specs(ctx)
    jobs = [(l1.spec_to_json(s), 3000 if ctx.quick else 40000) for s in sp]
    res = [(jobfn or _job)(j) for j in jobs]  # each closure parallelises its own BFS levels
    states = trans = runs = 0
    flags = set()
    for sj, st, viols in res:
        states += st["states"]
        trans += st["transitions"]
        runs += st["runs"]
        flags.update(st.get("flags", []))
        ctx.distinct(("closure", str(sj), st["states"], st["depth"]))
        if st["capped"]:
            ctx.cap(f"{sj}: state cap hit at depth {st['depth']} ({st['states']} states)")
        if len(ctx.samples) < 5:
            ctx.sample(dict(spec=sj, states=st["states"], transitions=st["transitions"], depth=st["depth"],
                            closed=st["frontier_empty"]))
        for sig, (msg, rp) in viols.items():
            ctx.violation(sig, f"{sj}: {msg}", rp)
    if jobfn is None and not ctx.violations and not {"zero-swap-in-flight", "two-jobs-in-flight"} <= flags:
        from vf.runner import HarnessError

        raise HarnessError(f"C03 vacuous: flags {flags}")
    ctx.set("states", states)
    ctx.set("transitions", trans)
    ctx.set("evaluations", runs)
    ctx.set("traces_validated_against_impl", runs)
    ctx.set("specs", len(sp))
    ctx.set("rule", "state = canonical scheduler state (weight row per slot, locks, in-flight jobs as (pin, ensembles, slots, engines), "
                    "engine_occ, locked list, initiation phase, run draining?); transition = one completed job with one outcome followed by one "
                    "complete outcome of the real pick, or (specs with restarts) kill + restart from the state's own restart file / "
                    "begin of the last W steps / restart with a budget of 1..W-1 steps / extension of a finished run by 1..W or unlimited steps; "
                    "distinct = (spec, #states, depth)")
    ctx.assume("abstract moves: REJ or ACC with a lattice path per reachable maximum (weights from the real calc_cv_vector); "
               "path numbers, cstep, frac and RNG state are dropped from the canonical state (used only for equality/lookup)")


def replay(data):
    spec = l1.spec_from_json(data["spec"])
    from vf import scratch

    wd = os.path.join(scratch.mkdtemp("l1r"), "run")
    old = os.getcwd()
    try:
        res = l1._guard(lambda ch: l1.run_history(spec, data["choices"], data["n_events"], [MutexObserver()], wd, ops=data.get("ops")))(None)
    finally:
        os.chdir(old)
    if isinstance(res, l1.Violation):
        return [(res.sig, res.msg)]
    return []
