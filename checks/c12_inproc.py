"""C12: in-process engines (TurtleMD, ASE, lattice / ballistic plug-ins) over a grid of
initial conditions x interfaces x subcycles x length limits (see checks/c12.py)."""
from __future__ import annotations

import itertools
import os

import numpy as np

from vf import engines, scratch, watchdog


def build(kind, sub):
    """Returns (engine, initial conf path, deterministic?)."""
    from infretis.classes.orderparameter import Distance, Position

    if kind == "turtlemd-vv":
        import tomli
        from infretis.classes.engines.factory import create_engine

        p = os.path.join(engines._repo(), "turtlemd/H2")
        with open(os.path.join(p, "infretis.toml"), "rb") as f:
            cfg = tomli.load(f)
        cfg["engine"]["integrator"] = {"class": "VelocityVerlet", "settings": {}}
        cfg["engine"]["subcycles"] = sub
        eng = create_engine(cfg)
        eng.order_function = Distance((0, 1), periodic=True)
        return eng, os.path.join(p, "conf.xyz"), True
    if kind == "turtlemd-langevin":
        eng, conf = engines.turtlemd()
        eng.subcycles = sub
        eng.order_function = Distance((0, 1), periodic=True)
        return eng, conf, False
    if kind in ("ase-vv", "ase-langevin"):
        eng, conf = engines.ase(integrator="velocityverlet" if kind == "ase-vv" else "langevin")
        eng.subcycles = sub
        eng.order_function = Distance((0, 1), periodic=True)
        return eng, conf, kind == "ase-vv"
    if kind == "ballistic-file":
        from infretis.core.core import create_external
        from vf import scenario

        cfg = dict(scenario.toml_dict(B=4)["engine"])
        cfg.update({"class": "BallisticFile", "lo": -2, "hi": 3})
        for k in ("B", "p0", "pin"):
            cfg.pop(k, None)
        cfg["subcycles"] = sub
        eng = create_external(cfg, "engine", ["step"])
        eng.order_function = Position((0, 0), periodic=False)
        return eng, None, True
    raise ValueError(kind)


def order_of_frame(eng, pp, wd, k):
    """Order parameter recomputed from frame k as stored in the file it references."""
    from infretis.classes.system import System

    out = os.path.join(wd, f"chk{k}.{eng.ext}")
    eng._extract_frame(pp.config[0], pp.config[1], out)
    xyz, vel, box, _ = eng._read_configuration(out)
    s = System()
    s.pos = np.array(xyz)
    s.vel = np.array(vel) * (-1.0 if pp.vel_rev else 1.0)
    s.box = box
    os.remove(out)
    return [float(x) for x in eng.order_function.calculate(s)]


def one_case(kind, sub, maxlen, intf, reverse, start, wd):
    from infretis.classes.path import Path
    from infretis.classes.system import System

    bad = []
    eng, conf, deterministic = build(kind, sub)
    for f in os.listdir(wd):
        os.remove(os.path.join(wd, f))
    eng.exe_dir = wd
    eng.rgen = np.random.default_rng(3)
    if kind == "ballistic-file":
        from infretis.classes.engines.engineparts import write_xyz_trajectory

        conf = os.path.join(wd, "start.xyz")
        write_xyz_trajectory(conf, np.array([[float(start[0]), 0.0, 0.0]]), np.array([[float(start[1]), 0.0, 0.0]]),
                             ["X"], np.array([100.0] * 3), append=False)
        src = System()
        src.set_pos((conf, 0))
    else:
        src = System()
        src.set_pos((conf, 0))
        if start:  # give the start point velocities: generated from the job stream
            eng.modify_velocities(src, {"zero_momentum": True})
    s = src.copy()
    o0 = order_of_frame(eng, src, wd, "s")
    left, right = o0[0] - intf[0], o0[0] + intf[1]
    ens = {"interfaces": (left, o0[0], right), "ens_name": "001", "tis_set": {}}
    path = Path(maxlen=maxlen)
    with watchdog.limit(60):
        success, status = eng.propagate(path, ens, s, reverse=reverse)
    got = [float(pp.order[0]) for pp in path.phasepoints]
    tag = dict(kind=kind, sub=sub, maxlen=maxlen, intf=list(intf), reverse=reverse, start=list(start) if isinstance(start, tuple) else start)
    if not got:
        return [("empty-path", "propagate returned an empty path")], tag, 0
    # frame 0 is the start point (velocity direction honoured for velocity dependent parameters)
    if abs(got[0] - o0[0]) > 1e-9:
        bad.append(("first-frame", f"frame 0 has order {got[0]}, the start point {o0[0]}"))
    for k, pp in enumerate(path.phasepoints):
        if bool(pp.vel_rev) != bool(reverse):
            bad.append(("velocity-flag", f"frame {k}: vel_rev={pp.vel_rev}, reverse={reverse}"))
            break
        rec = order_of_frame(eng, pp, wd, k)
        if abs(rec[0] - got[k]) > 1e-6 * max(1.0, abs(rec[0])):
            bad.append(("order-not-from-own-frame", f"frame {k}: stored order {got[k]} but the referenced frame gives {rec[0]}"))
            break
    inside = [left <= o <= right for o in got]
    if not all(inside[:-1]):
        k = inside.index(False)
        bad.append(("did-not-stop-at-first-outside", f"frame {k} of {len(got)} is outside the interfaces but propagation went on: {got}"))
    if inside[-1] and len(got) != maxlen:
        bad.append(("stopped-early", f"path of {len(got)} < {maxlen} frames ends inside the interfaces"))
    if len(got) > maxlen:
        bad.append(("length-limit", f"{len(got)} frames > maxlen {maxlen}"))
    if bool(success) != (not inside[-1]):
        bad.append(("success-flag", f"success={success}, last frame {'inside' if inside[-1] else 'outside'}"))
    n_calls = 1
    # deterministic, time reversible integrators: backward from the last frame retraces the path
    if deterministic and len(got) >= 3 and not bad:
        last = path.phasepoints[-1].copy()
        wide = {"interfaces": (-1e9, 0.0, 1e9), "ens_name": "001", "tis_set": {}}
        back = Path(maxlen=len(got))
        eng.propagate(back, wide, last, reverse=not reverse)
        n_calls += 1
        bo = [float(pp.order[0]) for pp in back.phasepoints]
        if len(bo) != len(got) or any(abs(a - b) > 1e-6 * max(1.0, abs(a)) for a, b in zip(bo, reversed(got))):
            bad.append(("does-not-retrace", f"forward orders {got}, backward from the last frame {bo}"))
    return bad, tag, n_calls


def _job(args):
    kind, sub, maxlen, intf, reverse, start = args
    wd = scratch.mkdtemp("c12i")
    try:
        try:
            bad, tag, n = one_case(kind, sub, maxlen, intf, reverse, start, wd)
        except watchdog.Hang as e:
            bad, tag, n = [("hang", str(e))], dict(kind=kind, sub=sub, maxlen=maxlen, intf=list(intf), reverse=reverse, start=start), 1
        except Exception as e:  # noqa: BLE001
            import traceback

            bad, tag, n = [("raised", f"{type(e).__name__}: {e} {traceback.format_exc(limit=2)[-200:]}")], dict(kind=kind, sub=sub, maxlen=maxlen, intf=list(intf), reverse=reverse, start=start), 1
    finally:
        scratch.rmtree(wd)
    return args, n, bad, tag


def grid(quick):
    out = []
    # (TurtleMD's VelocityVerlet cannot be used: the engine always passes seed= to the integrator)
    for kind in ("turtlemd-langevin", "ase-vv", "ase-langevin"):
        for sub in (1, 2, 3):
            for maxlen in (2, 3, 5) if quick else (2, 3, 5, 9):
                for intf in ((1e-5, 1e-5), (0.5, 0.5)) if quick else ((1e-5, 1e-5), (1e-3, 0.5), (0.5, 0.5)):
                    for reverse in (False, True):
                        out.append((kind, sub, maxlen, intf, reverse, True))
    for sub in (1, 2, 3):
        for maxlen in (2, 3, 5, 8):
            for intf in ((0.5, 0.5), (1.5, 2.5), (3.5, 3.5)):
                for reverse in (False, True):
                    for x0 in (-1, 0, 2):
                        for v0 in (1, -1):
                            out.append(("ballistic-file", sub, maxlen, intf, reverse, (x0, v0)))
    return out


def run_part(ctx):
    import multiprocessing as mp

    jobs = grid(ctx.quick)
    with mp.get_context("fork").Pool(min(16, os.cpu_count() or 1)) as pool:
        res = pool.map(_job, jobs, chunksize=4)
    n = 0
    seen = set()
    for args, k, bad, tag in res:
        n += k
        ctx.distinct(("inproc", args[0], args[1], args[2], bool(bad)))
        for clause, msg in bad:
            sig = f"{args[0]}:{clause}"
            if sig not in seen:
                seen.add(sig)
                ctx.violation(sig, f"{tag}: {msg}", dict(kind="inproc", args=[args[0], args[1], args[2], list(args[3]), args[4], list(args[5]) if isinstance(args[5], tuple) else args[5]]))
    ctx.set("inprocess_engine_runs", n)
    ctx.coverage["extra_states"] = ctx.coverage.get("extra_states", 0) + len(jobs)
    ctx.assume("in-process engines: frames are read back through the engine's own _extract_frame/_read_configuration (codecs are C19's business); "
               "the order is recomputed by the harness from those coordinates, box and velocity sign")
    return n


def replay(data):
    a = data["args"]
    args = (a[0], a[1], a[2], tuple(a[3]), a[4], tuple(a[5]) if isinstance(a[5], list) else a[5])
    _, n, bad, tag = _job(args)
    return [(f"{a[0]}:{c}", m) for c, m in bad]
