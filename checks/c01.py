"""C01 — sampling is unbiased (exact probabilistic model checking).

(a) Move kernels: for every ensemble type, move and cap, all executions of the
    real move from every path of the move's own length-truncated space give
    the exact kernel K (Fractions).  Oracle: global balance
    sum_p pi(p) K(p->q) = pi(q) exactly, with pi = equilibrium path probability
    times the weight the sampler divides out (1, or the high-acceptance
    weight), and closedness of the space.
(b) The sampler's Markov chain (checks/c01b.py): every outcome of the real
    scheduler step from every reachable joint state; stationary solve; the
    estimator the data file encodes equals the exact crossing probability.
"""

from __future__ import annotations

import os
from fractions import Fraction

from vf import lattice as lat
from vf.ref import latticepaths as lp

from checks import c09

LEVEL = "model_checking"


def kernel_configs(ctx):
    q = ctx.quick
    out = []
    for name in ("sym", "drift"):
        for B, M in ((3, 8 if q else 11), (4, 7 if q else 9)):
            if name == "drift" and B == 4 and q:
                continue
            out.append((name, B, "minus", 0, "sh", M, None, None, False, False))
            for i in range(B - 1):
                out.append((name, B, "plus", i, "sh", M, None, None, False, False))
    for name in ("sym", "drift"):
        for nj in (1, 2):
            for i in (0, 1):
                M = (7 if nj == 1 else 6) if q else (9 if nj == 1 else 8)
                out.append((name, 3, "plus", i, "wf", M, None, nj, False, False))
    out.append(("sym", 3, "plus", 0, "wf", 7, 1.5, 1, False, False))
    for i in (0, 1):
        out.append(("sym", 4, "plus", i, "wf", 7 if q else 8, 2.5, 1, False, False))
    # the old paths carry the label of another move type (paths migrate between ensembles through swaps):
    # the move must be balanced whatever produced the path it starts from
    out.append(("sym", 3, "plus", 1, "sh", 7, None, None, False, "wf"))
    out.append(("drift", 3, "plus", 0, "sh", 7, None, None, False, "wf"))
    out.append(("sym", 3, "plus", 1, "wf", 6, None, 1, False, "sh"))
    out.append(("sym", 3, "minus", 0, "sh", 7, None, None, False, "00"))
    # the same kernels with the order-parameter axis moved so that the cap / lambda_0 is exactly 0.0
    # (name 'sym@<shift>', see vf/lattice.SHIFT; weights and spaces are those of the unshifted system)
    out.append(("sym@-2.5", 4, "plus", 1, "wf", 6, 2.5, 1, False, False))
    out.append(("sym@-1.5", 3, "plus", 0, "wf", 6, 1.5, 1, False, False))
    out.append(("sym@-0.5", 3, "plus", 0, "sh", 6, None, None, False, False))
    out.append(("sym@-0.5", 3, "minus", 0, "sh", 6, None, None, False, False))
    if not q:
        out.append(("sym", 4, "plus", 0, "wf", 7, 2.5, 2, False, False))
        out.append(("sym", 4, "plus", 2, "wf", 8, None, 1, False, False))
        out.append(("drift", 4, "plus", 1, "wf", 8, 2.5, 1, False, False))
    return out


def own_space(cfg):
    name, B, kind, i, move, M, cap, nj, allowmax, ld = cfg
    dyn = c09.mkdyn(name, B)
    Lmax = M if move == "sh" else M - 1
    return dyn, lp.enumerate_paths(dyn, kind, Lmax, i=i)


def weight(cfg, dyn, p):
    name, B, kind, i, move, M, cap, nj, allowmax, ld = cfg
    w = dyn.path_weight(p)
    if move == "wf":
        right = cap if cap is not None else B - 0.5
        w *= lp.ha_weight(p, 0.5, i + 0.5, right)
    return w


def swap_space(M, move1):
    """Length limits (for [0-], [0+]) of the space on which the zero swap is stationary."""
    return M, M


def swap_configs(ctx):
    q = ctx.quick
    return [("sym", 3, 6 if q else 8, "sh", None), ("drift", 3, 6 if q else 8, "sh", None),
            ("sym", 4, 6 if q else 7, "sh", None),
            ("sym", 3, 6 if q else 7, "wf", None), ("sym", 4, 6 if q else 7, "wf", 2.5),
            ("drift", 3, 6, "wf", None), ("sym@-0.5", 3, 5, "sh", None), ("sym@-2.5", 4, 5, "wf", 2.5)]


def run(ctx):
    import multiprocessing as mp

    cfgs = kernel_configs(ctx)
    jobs = []
    spaces = {}
    for cfg in cfgs:
        dyn, S = own_space(cfg)
        spaces[cfg] = (dyn, S)
        for p in S:
            jobs.append((cfg, p))
    scfgs = swap_configs(ctx)
    sjobs = []
    for name, B, M, move1, cap in scfgs:
        dyn = c09.mkdyn(name, B)
        # the zero swap's own space: L <= maxlength for a shooting [0+], L <= maxlength-1 for [0-]... see swap_space()
        l0, l1 = swap_space(M, move1)
        for o0 in lp.enumerate_paths(dyn, "minus", l0):
            for o1 in lp.enumerate_paths(dyn, "plus", l1, i=0):
                sjobs.append((name, B, M, o0, o1, move1, cap, True))
    with mp.get_context("fork").Pool(min(16, os.cpu_count() or 1)) as pool:
        res = pool.map(c09._job, jobs, chunksize=1)
        sres = pool.map(_swap_kernel_job, sjobs, chunksize=1)

    Ks = {}
    n_exec = 0
    for cfg, old, K, n, bad, idxs, nout in res:
        Ks.setdefault(cfg, {})[old] = {k: Fraction(*v) for k, v in K.items()}
        n_exec += n
    n_states = 0
    n_entries = 0
    for cfg in cfgs:
        dyn, S = spaces[cfg]
        Sset = set(S)
        pi = {p: weight(cfg, dyn, p) for p in S}
        tot = sum(pi.values())
        n_states += len(S)
        # closedness
        for p in S:
            for q_, v in Ks[cfg][p].items():
                n_entries += 1
                if q_ not in Sset and v > 0:
                    ctx.violation(f"kernel-leaves-space:{cfg[4]}:{cfg[2]}{cfg[3]}",
                                  f"{cfg}: move from {p} reaches {q_} outside its own space with probability {v}",
                                  dict(kind="balance", cfg=list(cfg)))
                    break
        resid = Fraction(0)
        worst = None
        for q_ in S:
            inflow = sum(pi[p] * Ks[cfg][p].get(q_, Fraction(0)) for p in S)
            d = abs(inflow - pi[q_])
            if d > 0 and (worst is None or d > worst[1]):
                worst = (q_, d)
            resid += d
        ctx.distinct(("kernel", cfg, len(S)))
        if resid != 0:
            ctx.violation(f"global-balance:{cfg[4]}:{cfg[2]}{cfg[3]}",
                          f"{cfg}: sum_p pi(p)K(p->q) != pi(q); relative residual {float(resid / tot):.6g}, "
                          f"worst at q={worst[0]} ({float(worst[1] / tot):.3g})",
                          dict(kind="balance", cfg=list(cfg)))
    # zero swap: joint space of pairs
    SK = {}
    n_swap = 0
    for key, olds, K, n in sres:
        SK.setdefault(key, {})[olds] = {k: Fraction(*v) for k, v in K.items()}
        n_swap += n
    for key, rows in SK.items():
        name, B, M, move1, cap = key
        dyn = c09.mkdyn(name, B)
        cfg1 = (name, B, "plus", 0, move1, M, cap, None, False, False)
        pi = {}
        for (o0, o1) in rows:
            pi[(o0, o1)] = dyn.path_weight(o0) * weight(cfg1, dyn, o1)
        tot = sum(pi.values())
        n_states += len(rows)
        resid = Fraction(0)
        leak = None
        for s, row in rows.items():
            for t, v in row.items():
                n_entries += 1
                if t not in pi and v > 0:
                    leak = (s, t, v)
        for t in pi:
            inflow = sum(pi[s] * rows[s].get(t, Fraction(0)) for s in rows)
            resid += abs(inflow - pi[t])
        ctx.distinct(("swapkernel", key, len(rows)))
        if leak:
            ctx.violation(f"kernel-leaves-space:swap0:{move1}",
                          f"{key}: swap from {leak[0]} reaches {leak[1]} outside the space (p={leak[2]})",
                          dict(kind="swapbalance", key=list(key)))
        # with a wf [0+] ensemble the code's acceptance threshold is a double-precision
        # quotient of weights, so the kernel is exact only to rounding
        tol = Fraction(0) if move1 == "sh" else Fraction(1, 10**12)
        if resid > tol * tot:
            ctx.violation(f"global-balance:swap0:{move1}",
                          f"{key}: zero-swap kernel is not stationary; relative residual {float(resid / tot):.6g}",
                          dict(kind="swapbalance", key=list(key)))
    nb = 0
    try:
        from checks import c01b
    except ImportError:
        c01b = None
    if c01b is not None:
        nb = c01b.run_part(ctx)
    ctx.set("evaluations", n_exec + n_swap + nb)
    ctx.set("states", n_states + ctx.coverage.get("chain_states", 0))
    ctx.set("transitions", n_entries + ctx.coverage.get("chain_transitions", 0))
    ctx.set("traces_validated_against_impl", n_exec + n_swap + nb)
    ctx.set("kernel_move_executions", n_exec)
    ctx.set("kernel_swap_executions", n_swap)
    ctx.set("kernel_configs", len(cfgs) + len(scfgs))
    ctx.set("rule", "(a) state = path (or [0-],[0+] pair) of a move's own truncated space, transition = kernel entry "
                    "obtained by summing exact probabilities of all executions; (b) state = joint sampler state, "
                    "transition = one outcome of a real scheduler step; distinct = (configuration, size of space)")
    ctx.sample(dict(config=list(cfgs[1]), paths=len(spaces[cfgs[1]][1]),
                    row={str(k): str(v) for k, v in list(Ks[cfgs[1]][spaces[cfgs[1]][1][-1]].items())[:4]}))
    ctx.assume("lattice walk through in-memory engine (real EngineBase.add_to_path, real move functions)")
    ctx.assume("truncated spaces as the code defines them: L <= maxlength for sh, L <= maxlength-1 for wf and the zero swap")
    ctx.assume("not claimed: adversarial (outcome-dependent) completion schedules, real MD engines")


def _swap_kernel_job(args):
    from vf import moves

    name, B, M, o0, o1, move1, cap, _ = args
    dyn = c09.mkdyn(name, B)
    with lat.shifted(c09.shift_of(name)):
        K, recs, n = moves.swap_kernel(dyn, o0, o1, M, move1=move1, cap=cap)
    return (name, B, M, move1, cap), (o0, o1), {k: (v.numerator, v.denominator) for k, v in K.items()}, n


def replay(data):
    """Recompute the balance residual of one configuration."""
    class C:
        def __init__(self):
            self.v = []
            self.quick = True
            self.coverage = {}

        def violation(self, s, m, r):
            self.v.append((s, m))

        def distinct(self, *_):
            pass
    from vf import moves

    c = C()
    if data["kind"] == "balance":
        cfg = tuple(data["cfg"])
        dyn, S = own_space(cfg)
        Ks = {}
        for p in S:
            r = c09._job((cfg, p))
            Ks[p] = {k: Fraction(*v) for k, v in r[2].items()}
        pi = {p: weight(cfg, dyn, p) for p in S}
        Sset = set(S)
        for p in S:
            for q_, v in Ks[p].items():
                if q_ not in Sset and v > 0:
                    c.v.append((f"kernel-leaves-space:{cfg[4]}:{cfg[2]}{cfg[3]}", f"{p}->{q_}"))
        resid = sum(abs(sum(pi[p] * Ks[p].get(q_, Fraction(0)) for p in S) - pi[q_]) for q_ in S)
        if resid != 0:
            c.v.append((f"global-balance:{cfg[4]}:{cfg[2]}{cfg[3]}", f"residual {float(resid / sum(pi.values()))}"))
    elif data["kind"] == "swapbalance":
        name, B, M, move1, cap = data["key"]
        dyn = c09.mkdyn(name, B)
        rows = {}
        l0, l1 = swap_space(M, move1)
        for o0 in lp.enumerate_paths(dyn, "minus", l0):
            for o1 in lp.enumerate_paths(dyn, "plus", l1, i=0):
                with lat.shifted(c09.shift_of(name)):
                    K, _, _ = moves.swap_kernel(dyn, o0, o1, M, move1=move1, cap=cap)
                rows[(o0, o1)] = K
        cfg1 = (name, B, "plus", 0, move1, M, cap, None, False, False)
        pi = {s: dyn.path_weight(s[0]) * weight(cfg1, dyn, s[1]) for s in rows}
        if any(t not in pi and v > 0 for row in rows.values() for t, v in row.items()):
            c.v.append((f"kernel-leaves-space:swap0:{move1}", "leak"))
        resid = sum(abs(sum(pi[s] * rows[s].get(t, Fraction(0)) for s in rows) - pi[t]) for t in pi)
        tol = Fraction(0) if move1 == "sh" else Fraction(1, 10**12)
        if resid > tol * sum(pi.values()):
            c.v.append((f"global-balance:swap0:{move1}", f"residual {float(resid / sum(pi.values()))}"))
    elif data["kind"] == "chain":
        from checks import c01b

        return c01b.replay(data)
    return c.v
