"""C20 — order parameters respect the symmetries of what they measure.

Finite symmetry groups on a dyadic coordinate grid (exact in binary floating
point): all translations from a grid, all image shifts in {-1,0,1}^3 per atom,
the 24 proper rotations of the cube, velocity reversal; both box forms (3 and
9 components, list and array).  Oracle: invariance / sign change (1e-9),
|minimum image| <= L/2 per axis, system untouched by calculate().
"""

from __future__ import annotations

import itertools

import numpy as np

from infretis.classes import orderparameter as op
from infretis.classes.system import System

LEVEL = "exploration"
TOL = 1e-9


def rotations():
    """The 24 proper rotations of the cube as integer matrices."""
    out = []
    for perm in itertools.permutations(range(3)):
        for signs in itertools.product((1, -1), repeat=3):
            m = np.zeros((3, 3))
            for r, (c, s) in enumerate(zip(perm, signs)):
                m[r, c] = s
            if round(np.linalg.det(m)) == 1:
                out.append(m)
    return out


ROT = rotations()
GRID = [-1.5, -1.0, -0.5, 0.0, 0.5, 1.0, 1.5]
BOXES = [(2.0, 2.0, 2.0), (2.0, 3.0, 5.0), (4.0, 4.0, 4.0)]
TRANS = [np.array(t) for t in ((0.0, 0.0, 0.0), (0.5, -1.0, 2.25), (-3.0, 0.25, 0.125), (8.0, 8.0, -8.0))]


def box_forms(b):
    # the engines hand numpy arrays to the order parameter (3 lengths, or 9 components for GROMACS)
    b9 = list(b) + [0.0] * 6
    return [("array3", np.array(b)), ("array9", np.array(b9))]


def mk(pos, vel=None, box=None):
    s = System()
    s.pos = np.array(pos, dtype=float)
    s.vel = np.array(vel if vel is not None else np.zeros_like(s.pos), dtype=float)
    s.box = box
    return s


def snapshot(s):
    return (s.pos.copy(), s.vel.copy(), None if s.box is None else np.array(s.box, dtype=float).copy(),
            type(s.box), s.vel_rev, tuple(s.config))


def same(a, b):
    return (np.array_equal(a[0], b[0]) and np.array_equal(a[1], b[1])
            and ((a[2] is None and b[2] is None) or np.array_equal(a[2], b[2])) and a[3:] == b[3:])


class Judge:
    def __init__(self, ctx):
        self.ctx = ctx
        self.done = set()
        self.n = 0

    def calc(self, name, obj, s, case):
        before = snapshot(s)
        self.n += 1
        try:
            val = obj.calculate(s)
        except Exception as e:  # noqa: BLE001
            self.fail(f"{name}:raised", f"{type(e).__name__}: {e}", case)
            return None
        if not same(before, snapshot(s)):
            self.fail(f"{name}:system-modified", "calculate() changed pos/vel/box of the system", case)
        for v in val:
            if isinstance(v, np.ndarray) and (np.shares_memory(v, s.pos) or np.shares_memory(v, s.vel)):
                self.fail(f"{name}:aliases-system", "returned value aliases system arrays", case)
        return [float(v) for v in val]

    def fail(self, sig, msg, case):
        if sig not in self.done:
            self.done.add(sig)
            self.ctx.violation(sig, f"{msg}; case={case}", dict(kind="case", sig=sig))

    def close(self, name, a, b, what, case, sign=1.0, angle=False):
        if a is None or b is None:
            return
        for x, y in zip(a, b):
            d = abs(x - sign * y)
            if angle:
                d = min(d, abs(d - 2 * np.pi), abs(d - 360.0))
            if d > TOL * max(1.0, abs(x)):
                self.fail(f"{name}:{what}", f"{what}: {a} vs {b}", case)
                return


def open_dimensions(J):
    """A box that is periodic along x only: TurtleMD reports an infinite length for the open dimensions.
    Periodic order parameters must fold along x and leave y, z alone (finite values, invariant under x-shifts)."""
    L = 5.0
    box = np.array([L, np.inf, np.inf])
    for rel in itertools.product((-3.0, -1.0, 0.5, 2.0, 4.0), (-2.0, 0.0, 7.5), (-0.5, 3.0)):
        rel = np.array(rel)
        p0 = np.array([0.25, -0.5, 0.75])
        pos = np.array([p0, p0 + rel])
        vel = np.array([[0.5, -1.0, 0.25], [-0.25, 0.5, 1.0]])
        dx = rel[0] - L * np.round(rel[0] / L)
        if abs(abs(dx) - L / 2) < 1e-12:
            continue
        want = float(np.sqrt(dx * dx + rel[1] ** 2 + rel[2] ** 2))
        d = J.calc("Distance", op.Distance((0, 1), periodic=True), mk(pos, vel, box), ("open", tuple(rel)))
        v = J.calc("Distancevel", op.Distancevel((0, 1), periodic=True), mk(pos, vel, box), ("open", tuple(rel)))
        if d is None or v is None:
            continue
        if not np.isfinite(d[0]) or abs(d[0] - want) > TOL * max(1.0, want):
            J.fail("Distance:open-dimension", f"box [5, inf, inf], separation {tuple(rel)}: {d[0]} instead of {want}", tuple(rel))
        if not np.isfinite(v[0]):
            J.fail("Distancevel:open-dimension", f"box [5, inf, inf], separation {tuple(rel)}: {v[0]}", tuple(rel))
        p2 = pos.copy()
        p2[1, 0] += L
        d2 = J.calc("Distance", op.Distance((0, 1), periodic=True), mk(p2, vel, box), ("open-shift", tuple(rel)))
        if d2 is not None and not abs(d2[0] - d[0]) <= TOL * max(1.0, want):
            J.fail("Distance:open-dimension", f"box [5, inf, inf]: not invariant under a shift by the box length along x ({d[0]} vs {d2[0]})", tuple(rel))


def plumbing(J):
    """EngineBase.calculate_order hands positions, velocities (with the frame's velocity direction) and box to
    the order function — both when they are read from the configuration file and when the engine passes the
    arrays it has just read (what every engine does for each frame while propagating)."""
    from infretis.classes.engines.enginebase import EngineBase
    from infretis.classes.system import System

    pos = np.array([[0.25, -0.5, 0.75], [1.0, 0.25, -0.25]])
    vel = np.array([[0.5, -1.0, 0.25], [-0.25, 0.5, 1.0]])
    box = np.array([4.0, 5.0, 6.0])

    class Eng(EngineBase):
        def __init__(self):
            pass

        def _read_configuration(self, filename):
            return pos.copy(), vel.copy(), box.copy(), None

        def _extract_frame(self, *a, **k):
            raise NotImplementedError

        def _propagate_from(self, *a, **k):
            raise NotImplementedError

        def _reverse_velocities(self, *a, **k):
            raise NotImplementedError

        def modify_velocities(self, *a, **k):
            raise NotImplementedError

        def set_mdrun(self, *a, **k):
            raise NotImplementedError

    cases = [("Velocity", op.Velocity(1, "y"), -1.0), ("Distancevel", op.Distancevel((0, 1), periodic=True), -1.0),
             ("Distance", op.Distance((0, 1), periodic=True), 1.0), ("Position", op.Position((1, 2), periodic=False), 1.0)]
    for name, fn, sign in cases:
        eng = Eng()
        eng.order_function = fn
        vals = {}
        for rev in (False, True):
            for how in ("file", "arrays"):
                s = System()
                s.config = ("conf", 0)
                s.vel_rev = rev
                J.n += 1
                try:
                    if how == "file":
                        v = eng.calculate_order(s)
                    else:
                        v = eng.calculate_order(s, xyz=pos.copy(), vel=vel.copy(), box=box.copy())
                except Exception as e:  # noqa: BLE001
                    J.fail(f"plumbing:{name}:raised", f"{type(e).__name__}: {e}", (name, rev, how))
                    continue
                vals[(rev, how)] = float(v[0])
        if len(vals) < 4:
            continue
        for rev in (False, True):
            if abs(vals[(rev, "file")] - vals[(rev, "arrays")]) > TOL:
                J.fail(f"plumbing:{name}:file-vs-arrays", f"vel_rev={rev}: {vals[(rev, 'file')]} when read from the file, {vals[(rev, 'arrays')]} when the same arrays are passed", (name, rev))
        for how in ("file", "arrays"):
            if abs(vals[(True, how)] - sign * vals[(False, how)]) > TOL:
                J.fail(f"plumbing:{name}:velocity-reversal", f"via {how}: {vals[(False, how)]} forward, {vals[(True, how)]} with reversed velocities (expected factor {sign})", (name, how))


def geometries4():
    """Non-degenerate 4-atom geometries on the dyadic grid (dihedral)."""
    base = [
        [(0, 0.5, 0), (0, 0, 0), (0.5, 0, 0), (0.5, 0, 0.5)],
        [(0, 0.5, 0), (0, 0, 0), (0.5, 0, 0), (0.5, 0.5, 0.25)],
        [(-0.5, 0.25, 0), (0, 0, 0), (0.75, 0, 0), (1.0, -0.25, -0.5)],
        [(0.25, 0.5, 0.25), (0, 0, 0.25), (0.5, -0.25, 0), (0.75, 0, 0.5)],
    ]
    return [np.array(g, dtype=float) for g in base]


def geometries6():
    chair = [(0.5, 0, 0.125), (0.25, 0.5, -0.125), (-0.25, 0.5, 0.125), (-0.5, 0, -0.125), (-0.25, -0.5, 0.125), (0.25, -0.5, -0.125)]
    boat = [(0.5, 0, 0.25), (0.25, 0.5, 0), (-0.25, 0.5, 0), (-0.5, 0, 0.25), (-0.25, -0.5, 0), (0.25, -0.5, 0)]
    twist = [(0.5, 0, 0.125), (0.25, 0.5, 0.25), (-0.25, 0.5, -0.125), (-0.5, 0, 0.0), (-0.25, -0.5, 0.25), (0.25, -0.5, -0.25)]
    return [np.array(g, dtype=float) for g in (chair, boat, twist)]


def run(ctx):
    J = Judge(ctx)
    quick = ctx.quick
    grid = GRID[1:-1] if quick else GRID
    # ---- pbc_dist_coordinate ------------------------------------------------
    for b in BOXES:
        for d in itertools.product([x * 0.5 for x in range(-12, 13)], repeat=1):
            for ax in range(3):
                vec = np.zeros(3)
                vec[ax] = d[0]
                out = op.pbc_dist_coordinate(vec.copy(), np.array(b))
                J.n += 1
                if abs(out[ax]) > 0.5 * b[ax] + 1e-12:
                    J.fail("pbc:exceeds-half-box", f"|{out[ax]}| > {b[ax]}/2 for d={d[0]}", (b, d))
                k = (vec[ax] - out[ax]) / b[ax]
                if abs(k - round(k)) > 1e-12:
                    J.fail("pbc:not-an-image", f"{vec[ax]} -> {out[ax]} is not a lattice image (L={b[ax]})", (b, d))
    # ---- Distance / Distancevel ---------------------------------------------
    vels = [np.array([[0.5, -1.0, 0.25], [-0.25, 0.5, 1.0]]), np.array([[1.0, 0.0, 0.0], [0.0, 0.0, -2.0]])]
    shifts = list(itertools.product((-1, 0, 1), repeat=3))
    for rel in itertools.product(grid, repeat=3):
        rel = np.array(rel)
        if not rel.any():
            continue
        p0 = np.array([0.25, -0.5, 0.75])
        pos = np.array([p0, p0 + rel])
        for periodic in (False, True):
            dist = op.Distance((0, 1), periodic=periodic)
            dvel = op.Distancevel((0, 1), periodic=periodic)
            for b in (BOXES if periodic else [None]):
                tie = periodic and any(abs(abs(rel[k]) - 0.5 * b[k]) < 1e-12 or abs(abs(rel[k]) - 1.5 * b[k]) < 1e-12 for k in range(3))
                forms = box_forms(b) if b else [("none", None)]
                ref_d = ref_v = None
                for fname, box in forms:
                    case = (tuple(rel), periodic, b, fname)
                    s = mk(pos, vels[0], box)
                    d = J.calc("Distance", dist, s, case)
                    v = J.calc("Distancevel", dvel, s, case)
                    if ref_d is None:
                        ref_d, ref_v = d, v
                    else:
                        J.close("Distance", ref_d, d, "box-form", case)
                        J.close("Distancevel", ref_v, v, "box-form", case)
                if ref_d is None:
                    continue
                box = forms[0][1]
                ctx.distinct(("dist", periodic, b, tie))
                # minimum image bound
                if periodic and ref_d[0] > 0.5 * np.sqrt(sum(x * x for x in b)) + 1e-9:
                    J.fail("Distance:exceeds-half-diagonal", f"{ref_d}", (tuple(rel), b))
                # translation
                for t in TRANS[1:]:
                    s = mk(pos + t, vels[0], box)
                    J.close("Distance", ref_d, J.calc("Distance", dist, s, (tuple(rel), "trans")), "translation", (tuple(rel), periodic, b, tuple(t)))
                    J.close("Distancevel", ref_v, J.calc("Distancevel", dvel, s, (tuple(rel), "trans")), "translation", (tuple(rel), periodic, b, tuple(t)))
                # image shifts of either atom
                if periodic:
                    for sh in (shifts if not quick else shifts[::3]):
                        for atom in (0, 1):
                            p2 = pos.copy()
                            p2[atom] += np.array(sh) * np.array(b)
                            for fname, fbox in forms:  # every form in which the engines hand over the same box
                                s = mk(p2, vels[0], fbox)
                                J.close("Distance", ref_d, J.calc("Distance", dist, s, "img"), "image-shift", (tuple(rel), b, sh, atom, fname))
                                if not tie:
                                    J.close("Distancevel", ref_v, J.calc("Distancevel", dvel, s, "img"), "image-shift", (tuple(rel), b, sh, atom, fname))
                # rotation (box lengths permuted accordingly)
                for R in (ROT if not quick else ROT[::4]):
                    p2 = pos @ R.T
                    v2 = vels[0] @ R.T
                    b2 = None if b is None else list(np.abs(R @ np.array(b)))
                    s = mk(p2, v2, b2)
                    J.close("Distance", ref_d, J.calc("Distance", dist, s, "rot"), "rotation", (tuple(rel), periodic, b))
                    if not tie:
                        J.close("Distancevel", ref_v, J.calc("Distancevel", dvel, s, "rot"), "rotation", (tuple(rel), periodic, b))
                # velocity reversal
                s = mk(pos, -vels[0], box)
                J.close("Distance", ref_d, J.calc("Distance", dist, s, "vrev"), "velocity-reversal", (tuple(rel), periodic, b))
                J.close("Distancevel", ref_v, J.calc("Distancevel", dvel, s, "vrev"), "velocity-reversal-sign", (tuple(rel), periodic, b), sign=-1.0)
    # ---- Position / Velocity --------------------------------------------------
    for idx, dim in itertools.product((0, 1), (0, 1, 2)):
        pos = np.array([[0.25, -0.5, 0.75], [1.0, 2.0, -3.0]])
        vel = vels[0]
        P = op.Position((idx, dim), periodic=False)
        V = op.Velocity(idx, "xyz"[dim])
        s = mk(pos, vel, None)
        a = J.calc("Position", P, s, (idx, dim))
        b_ = J.calc("Velocity", V, s, (idx, dim))
        s2 = mk(pos, -vel, None)
        J.close("Position", a, J.calc("Position", P, s2, "vrev"), "velocity-reversal", (idx, dim))
        J.close("Velocity", b_, J.calc("Velocity", V, s2, "vrev"), "velocity-reversal-sign", (idx, dim), sign=-1.0)
        if a is not None and a[0] != pos[idx, dim]:
            J.fail("Position:value", f"{a} != {pos[idx, dim]}", (idx, dim))
        ctx.distinct(("posvel", idx, dim))
    # ---- Dihedral -------------------------------------------------------------
    for g in geometries4():
        for periodic in (False, True):
            D = op.Dihedral((0, 1, 2, 3), periodic=periodic)
            for b in ([None] if not periodic else [(4.0, 4.0, 4.0), (4.0, 5.0, 8.0)]):
                forms = box_forms(b) if b else [("none", None)]
                ref = None
                for fname, box in forms:
                    s = mk(g, None, box)
                    v = J.calc("Dihedral", D, s, (fname,))
                    if ref is None:
                        ref = v
                    else:
                        J.close("Dihedral", ref, v, "box-form", (periodic, b, fname), angle=True)
                box = forms[0][1]
                ctx.distinct(("dihedral", periodic, b, None if ref is None else round(ref[0], 6)))
                for t in TRANS[1:]:
                    J.close("Dihedral", ref, J.calc("Dihedral", D, mk(g + t, None, box), "t"), "translation", (periodic, b), angle=True)
                for R in ROT:
                    b2 = None if b is None else list(np.abs(R @ np.array(b)))
                    J.close("Dihedral", ref, J.calc("Dihedral", D, mk(g @ R.T, None, b2), "r"), "rotation", (periodic, b), angle=True)
                if periodic:
                    for atom in range(4):
                        for sh in shifts[::2] if quick else shifts:
                            p2 = g.copy()
                            p2[atom] += np.array(sh) * np.array(b)
                            J.close("Dihedral", ref, J.calc("Dihedral", D, mk(p2, None, box), "i"), "image-shift", (b, atom, sh), angle=True)
                J.close("Dihedral", ref, J.calc("Dihedral", D, mk(g, -np.ones_like(g), box), "v"), "velocity-reversal", (periodic, b), angle=True)
    # ---- Puckering ------------------------------------------------------------
    for g in geometries6():
        for periodic in (False, True):
            Pk = op.Puckering((0, 1, 2, 3, 4, 5), periodic=periodic)
            for b in ([None] if not periodic else [(4.0, 4.0, 4.0), (4.0, 5.0, 8.0)]):
                forms = box_forms(b) if b else [("none", None)]
                ref = None
                for fname, box in forms:
                    v = J.calc("Puckering", Pk, mk(g, None, box), (fname,))
                    if ref is None:
                        ref = v
                    else:
                        J.close("Puckering", ref, v, "box-form", (periodic, b, fname), angle=True)
                box = forms[0][1]
                ctx.distinct(("puckering", periodic, b, None if ref is None else tuple(round(x, 5) for x in ref)))
                for t in TRANS[1:]:
                    J.close("Puckering", ref, J.calc("Puckering", Pk, mk(g + t, None, box), "t"), "translation", (periodic, b), angle=True)
                for R in ROT:
                    b2 = None if b is None else list(np.abs(R @ np.array(b)))
                    J.close("Puckering", ref, J.calc("Puckering", Pk, mk(g @ R.T, None, b2), "r"), "rotation", (periodic, b), angle=True)
                if periodic:
                    for atom in range(6):
                        for sh in shifts[::4] if quick else shifts:
                            p2 = g.copy()
                            p2[atom] += np.array(sh) * np.array(b)
                            J.close("Puckering", ref, J.calc("Puckering", Pk, mk(p2, None, box), "i"), "image-shift", (b, atom, sh), angle=True)
    plumbing(J)
    open_dimensions(J)
    ctx.set("evaluations", J.n)
    ctx.set("rule", "all relative vectors on a half-integer grid x boxes x box forms x {translations, 27 image shifts per atom, 24 cube rotations, velocity reversal}; "
                    "tables of 4- and 6-atom geometries for dihedral/puckering; distinct = (parameter, periodic, box, reference value class)")
    ctx.sample(dict(rel=[1.5, -0.5, 1.0], box=[2.0, 3.0, 5.0], forms=["list3", "array3", "list9", "array9"]))
    ctx.assume("exact minimum-image ties (|d| = L/2) are excluded for the sign-sensitive Distancevel; rotations are the 24 cube rotations with the box lengths permuted accordingly")


def replay(data):
    class C:
        def __init__(self):
            self.v = []
            self.quick = False

        def violation(self, s, m, r):
            self.v.append((s, m))

        def distinct(self, *_):
            pass

        def set(self, *_):
            pass

        def sample(self, *_):
            pass

        def assume(self, *_):
            pass
    c = C()
    run(c)
    return [v for v in c.v if v[0] == data["sig"]]
