"""C06 — same seed, same run: determinism and restart equivalence.

Whole-program runs (real setup_config -> scheduler -> run_md with the lattice
plug-in engine and with the repository's TurtleMD double well) through the
inline runner.  For N steps the straight runs of every length give reference
states S_0..S_N; for EVERY pair k < k' a run restarted from the files of S_k and
continued to k' must reproduce S_k' (data file bytes, restart.toml minus
restarted_from, order/traj files of the live paths).  By induction over these
merged states every chain of restarts is covered.  Two straight runs in separate
processes with different PYTHONHASHSEED must be identical.  Multi-worker: at
every stop point of every completion order the jobs issued first after the
restart are the recorded in-flight (ensemble, path) pairs.
"""

from __future__ import annotations

import itertools
import os
import shutil
import subprocess
import sys

from vf import l2, scenario, scratch
from vf.explore import explore

LEVEL = "fault_enumeration"

LATTICE_CONFIGS = {
    "sh3": dict(B=3, moves=["sh", "sh", "sh"], maxlength=14),
    "wf3": dict(B=3, moves=["sh", "wf", "wf"], n_jumps=2, maxlength=14),
    "mix4cap": dict(B=4, moves=["sh", "sh", "wf", "sh"], cap=2.5, n_jumps=1, maxlength=16),
    "sh3del": dict(B=3, moves=["sh", "sh", "sh"], maxlength=14, delete_old=True),
    # an ensemble that lists two engines with different dynamics: which one runs the move must not depend on
    # anything but the configuration (e.g. not on the iteration order of a set)
    "multi3": dict(B=3, moves=["sh", "sh", "sh"], maxlength=14,
                   ensemble_engines=[["engine"], ["engine", "engine1"], ["engine1", "engine"]],
                   extra_engines={"engine1": {"class": "LatticeEngine", "module": scenario.PLUGIN, "B": 3, "p0": 0.5, "pin": 0.8,
                                              "timestep": 1.0, "subcycles": 1, "energies": False}}),
}


def build_case(root, cfgname, seed, steps, workers=1):
    if cfgname == "turtle":
        repo = os.environ.get("VERIF_REPO", "/repo")
        import tomli
        import tomli_w

        shutil.copytree(os.path.join(repo, "examples/turtlemd/double_well/load_copy"), os.path.join(root, "load"))
        shutil.copy(os.path.join(repo, "examples/turtlemd/double_well/orderp.py"), root)
        with open(os.path.join(repo, "test/simulations/data/wf.toml"), "rb") as f:
            cfg = tomli.load(f)
        cfg["simulation"]["steps"] = steps
        cfg["simulation"]["seed"] = seed
        cfg["simulation"]["tis_set"]["allowmaxlength"] = True
        cfg["simulation"]["tis_set"]["n_jumps"] = 2
        cfg["output"]["pattern"] = False
        cfg["output"]["delete_old"] = False
        cfg["output"]["delete_old_all"] = False
        cfg["runner"]["workers"] = workers
        with open(os.path.join(root, "infretis.toml"), "wb") as f:
            tomli_w.dump(cfg, f)
        return
    kw = dict(LATTICE_CONFIGS[cfgname])
    kw.update(seed=seed, steps=steps, workers=workers, allowmaxlength=True, screen=0)
    scenario.build(root, **kw)


def diff_scoped(a, b, cfgname):
    """l2.diff_states within the property's scope.  The property covers order-parameter values
    representable at the six decimals of the stored order files.  A real MD engine (TurtleMD)
    produces values with more decimals: the straight run prints the 'max OP' column (five
    decimals) from the full-precision number, the restarted run from the six-decimal one, and the
    two can round differently in the last digit.  For such engines that column may differ by
    one unit of its last digit; everything else stays byte-exact (lattice engines: all of it)."""
    df = l2.diff_states(a, b)
    if cfgname != "turtle":
        return df
    out = []
    for k in df:
        if not k.startswith("infretis_data") or k not in a or k not in b:
            out.append(k)
            continue
        la, lb = a[k].decode().split("\n"), b[k].decode().split("\n")
        same = len(la) == len(lb)
        for x, y in zip(la, lb):
            if not same:
                break
            if x == y:
                continue
            cx, cy = x.split("\t"), y.split("\t")
            if len(cx) != len(cy) or len(cx) < 4:
                same = False
                break
            for i, (u, v) in enumerate(zip(cx, cy)):
                if u == v:
                    continue
                try:
                    ok = i == 3 and abs(float(u) - float(v)) <= 1.1e-5
                except ValueError:
                    ok = False
                if not ok:
                    same = False
                    break
        if not same:
            out.append(k)
    return out


def straight(base, cfgname, seed, k, workers=1):
    d = os.path.join(base, f"S{k}")
    os.makedirs(d)
    build_case(d, cfgname, seed, k, workers)
    if k == 0:
        # a zero-step run: the program returns at once; state = initial files
        r = l2.Program(d).run()
    else:
        r = l2.Program(d).run()
    return d


def _job(args):
    cfgname, seed, N = args
    base = scratch.mkdtemp("c06")
    bad = []
    n_runs = 0
    try:
        S = {}
        for k in range(1, N + 1):
            d = straight(base, cfgname, seed, k)
            n_runs += 1
            S[k] = l2.state_of(d)
            if "restart.toml" not in S[k]:
                bad.append(("straight-run-wrote-no-restart", f"steps={k}", dict(k=k)))
        # same seed, same run (in-process repeat)
        d2 = os.path.join(base, "again")
        os.makedirs(d2)
        build_case(d2, cfgname, seed, N)
        l2.Program(d2).run()
        n_runs += 1
        df = diff_scoped(S[N], l2.state_of(d2), cfgname)
        if df:
            bad.append(("two-runs-differ", f"same seed, two runs of {N} steps differ in {df[:4]}", dict(k=N)))
        distinct = len({repr(sorted((k2, v if not isinstance(v, dict) else repr(v)) for k2, v in s.items())) for s in S.values()})
        for k, k2 in itertools.combinations(range(1, N + 1), 2):
            d = os.path.join(base, f"R{k}_{k2}")
            shutil.copytree(os.path.join(base, f"S{k}"), d)
            l2.set_steps(d, k2)
            res = l2.Program(d).run("restart.toml")
            n_runs += 1
            if res != "done":
                bad.append(("restart-refused", f"restart from {k} to {k2} steps: setup_config returned None", dict(k=k, k2=k2)))
                continue
            df = diff_scoped(S[k2], l2.state_of(d), cfgname)
            if df:
                what = "data-file" if any(x.startswith("infretis_data") for x in df) else ("restart-file" if "restart.toml" in df else "path-files")
                detail = ""
                if "restart.toml" in df:
                    a, b = S[k2]["restart.toml"], l2.state_of(d)["restart.toml"]
                    detail = str([s for s in a if a.get(s) != b.get(s)])
                    if a.get("current") != b.get("current"):
                        detail += str([s for s in a["current"] if a["current"].get(s) != b["current"].get(s)])
                bad.append((f"restart-differs:{what}", f"run to {k}, restart to {k2}: differs from the straight run of {k2} steps in {df[:4]} {detail}",
                            dict(k=k, k2=k2)))
            shutil.rmtree(d, ignore_errors=True)
    finally:
        scratch.rmtree(base)
    return (cfgname, seed, N), n_runs, distinct, bad


def _hashseed_job(args):
    cfgname, seed, N = args
    base = scratch.mkdtemp("c06h")
    try:
        states = []
        for hs in ("0", "1", "4242", "5", "6"):
            d = os.path.join(base, f"hs{hs}")
            os.makedirs(d)
            build_case(d, cfgname, seed, N)
            env = dict(os.environ, PYTHONHASHSEED=hs, PYTHONPATH="/verif")
            subprocess.run([sys.executable, "-m", "vf.l2", d], cwd="/verif", env=env, check=True,
                           stdout=subprocess.DEVNULL, stderr=subprocess.DEVNULL)
            states.append(l2.state_of(d))
        bad = []
        for s in states[1:]:
            df = l2.diff_states(states[0], s)
            if df:
                bad.append(("hashseed-dependent", f"runs in separate processes with different PYTHONHASHSEED differ in {df[:4]}", {}))
        return (cfgname, seed, N), 5, bad
    finally:
        scratch.rmtree(base)


class Stop(BaseException):
    pass


def multiworker_case(cfgname, seed, W, N, ch, base):
    """Run with W workers, completion order from the chooser, kill the main
    process at a chosen step boundary, restart, compare the first jobs."""
    import tomli

    d = os.path.join(base, "mw")
    if os.path.isdir(d):
        shutil.rmtree(d)
    os.makedirs(d)
    build_case(d, cfgname, seed, N, workers=W)
    stop_at = 1 + ch.choose(N - 1, "stop")
    calls = {"n": 0}

    def order(n):
        calls["n"] += 1
        if calls["n"] > stop_at:
            raise Stop()
        return ch.choose(n, "complete")

    p = l2.Program(d, order_fn=order)
    try:
        p.run()
    except Stop:
        pass
    finally:
        os.chdir("/verif")
        scenario.close_loggers()
    with open(os.path.join(d, "restart.toml"), "rb") as f:
        cur = tomli.load(f)["current"]
    recorded = [(tuple(e - 1 for e in l[0]), tuple(int(x) for x in l[1])) for l in cur["locked"]]
    # jobs in flight when that restart file was written (reference model: a list)
    inflight, snap, tag = {}, [], 0
    for ev in p.log:
        if ev[0] == "submit":
            tag += 1
            inflight[tag] = (tuple(ev[2]), tuple(ev[3]))
        else:
            inflight.pop(ev[1])
            snap = [inflight[t] for t in sorted(inflight)]
    p2 = l2.Program(d)
    p2.run("restart.toml")
    first = [(tuple(x[2]), tuple(x[3])) for x in p2.log if x[0] == "submit"][: len(recorded)]
    return recorded, first, stop_at, snap


def _mw_job(args):
    cfgname, seed, W, N = args
    base = scratch.mkdtemp("c06m")
    bad = []
    n = 0
    seen = set()
    try:
        def fn(ch):
            return multiworker_case(cfgname, seed, W, N, ch, base)

        for ch, (recorded, first, stop_at, snap) in explore(fn):
            n += 1
            seen.add((stop_at, len(recorded), tuple(recorded)))
            if sorted(recorded) != sorted(snap):
                bad.append(("mw:locked-not-the-inflight-jobs", f"W={W} stop after {stop_at} completions: restart file records {recorded}, in flight were {snap}",
                            dict(choices=ch.choices)))
            elif first != recorded:
                bad.append(("mw:reissue-differs", f"W={W} stop after {stop_at}: recorded in-flight {recorded} but first jobs after restart {first}",
                            dict(choices=ch.choices)))
    finally:
        os.chdir("/verif")
        scratch.rmtree(base)
    return (cfgname, seed, W, N), n, len(seen), bad


def run(ctx):
    import multiprocessing as mp

    N = 8 if ctx.quick else 12
    seeds = sorted({0, 1, 12345, 2 + ctx.seed % 1000})
    cfgs = ["sh3", "wf3", "mix4cap"] + ([] if ctx.quick else ["sh3del"])
    jobs = [(c, s, N) for c in cfgs for s in seeds]
    jobs += [("turtle", s, 8 if ctx.quick else 12) for s in (seeds[:3] if ctx.quick else seeds)]
    hjobs = [("wf3", 1, N), ("turtle", 0, 3), ("multi3", 1, N)]
    mjobs = [("sh3", s, 2, 5 if ctx.quick else 6) for s in seeds[:2]] + [("mix4cap", 1, 3, 5 if ctx.quick else 6), ("wf3", 7, 2, 5)]
    with mp.get_context("fork").Pool(min(16, os.cpu_count() or 1)) as pool:
        r1 = pool.map_async(_job, jobs, chunksize=1)
        r2 = pool.map_async(_hashseed_job, hjobs, chunksize=1)
        r3 = pool.map_async(_mw_job, mjobs, chunksize=1)
        res, hres, mres = r1.get(), r2.get(), r3.get()
    n = 0
    seen = set()
    for key, runs, distinct, bad in res:
        n += runs
        ctx.distinct(("restart-pairs", key, distinct))
        for sig, msg, rp in bad:
            s2 = f"{sig}:{'turtlemd' if key[0] == 'turtle' else 'lattice'}"
            if s2 not in seen:
                seen.add(s2)
                ctx.violation(s2, f"{key}: {msg}", dict(kind="pair", key=list(key), **rp))
    for key, runs, bad in hres:
        n += runs
        ctx.distinct(("hashseed", key))
        for sig, msg, rp in bad:
            if sig not in seen:
                seen.add(sig)
                ctx.violation(sig, f"{key}: {msg}", dict(kind="hash", key=list(key)))
    for key, runs, shapes, bad in mres:
        n += runs
        ctx.distinct(("multiworker", key, shapes))
        for sig, msg, rp in bad:
            if sig not in seen:
                seen.add(sig)
                ctx.violation(sig, f"{key}: {msg}", dict(kind="mw", key=list(key), **rp))
    ng, gbad = generator_roundtrip()
    ctx.set("generator_roundtrips", ng)
    for sig, msg, rp in gbad:
        if sig not in seen:
            seen.add(sig)
            ctx.violation(sig, msg, dict(kind="gen", key=[], **rp))
    ctx.set("evaluations", n + ng)
    ctx.set("whole_program_runs", n)
    ctx.set("steps_N", N)
    ctx.set("rule", "for each (config, seed): straight runs of 1..N steps, every restart pair k<k', repeat run, runs under 3 PYTHONHASHSEEDs; "
                    "multi-worker: every (stop point, completion order); distinct = (case, number of distinct reference states / stop shapes)")
    ctx.sample(dict(config="wf3", seed=1, N=N, pairs=[[k, k2] for k, k2 in itertools.combinations(range(1, N + 1), 2)][:5]))
    ctx.assume("allowmaxlength=true (documented loss of the 'initial path' marker at a restart is out of scope); "
               "the set of older load/ directories is not compared (the deletion queue is not persisted); inline runner stands for the process pool")


def generator_roundtrip():
    """The scheduler's generator after a restart continues exactly where the stopped run's generator was,
    whatever kind of draw came last: seeds x 0..3 bounded-integer draws (they leave a cached 32-bit half in
    the bit generator) x 0..1 float draws before the stop; compared on the next integer and float draws."""
    from vf import l1

    bad = []
    n = 0
    base = scratch.mkdtemp("c06g")
    try:
        for seed in (0, 1, 12345):
            for k_int in range(4):
                for k_float in range(2):
                    spec = l1.Spec(B=3, workers=1, seed=seed, scripted=False)
                    run = l1.L1Run(spec, l1.Chooser([]), os.path.join(base, "run"), [])
                    run.start()
                    run.event()
                    st = run.state
                    for _ in range(k_int):
                        st.rgen.integers(0, 2)
                    for _ in range(k_float):
                        st.rgen.random()
                    st.write_toml()
                    with open(os.path.join(run.dir, "restart.toml"), "rb") as fh:
                        run.restart_text = fh.read()  # the harness restarts from this state's own file
                    want = [int(x) for x in st.rgen.integers(0, 1000, size=4)] + [float(st.rgen.random())]
                    run.inflight = []
                    run.restart()
                    # the restart path restores the generator before its first pick; redo that restoration
                    # and look at the stream it yields
                    run.state.set_rgen()
                    got = [int(x) for x in run.state.rgen.integers(0, 1000, size=4)] + [float(run.state.rgen.random())]
                    n += 1
                    if got != want:
                        bad.append(("generator-state-not-restored",
                                    f"seed {seed}, {k_int} integer and {k_float} float draws before the stop: the restarted generator continues with {got}, the stopped one with {want}",
                                    dict(seed=seed, k_int=k_int, k_float=k_float)))
                    l1.deactivate()
    finally:
        os.chdir("/verif")
        scratch.rmtree(base)
    return n, bad


def replay(data):
    if data.get("kind") == "gen":
        n, bad = generator_roundtrip()
        return [(s, m) for s, m, _ in bad]
    k = data["kind"]
    key = data["key"]
    if k == "pair":
        r = _job(tuple(key))
        return [(f"{s}:{'turtlemd' if key[0] == 'turtle' else 'lattice'}", m) for s, m, _ in r[3]]
    if k == "hash":
        r = _hashseed_job(tuple(key))
        return [(s, m) for s, m, _ in r[2]]
    r = _mw_job(tuple(key))
    return [(s, m) for s, m, _ in r[3]]
