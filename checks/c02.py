"""C02 — swap probabilities equal the exact permanent ratios.

L0: every weight matrix of the reachable family up to a size (0/1 staircase
rows in every order, high-acceptance rows from a weight alphabet, every lock
subset) is fed to the real inf_retis; oracle = Fraction permanents.
L1: in every state of the scheduler closure (same graph as C03) the cached
``state.prob`` must equal the oracle for the current (state, locks) — this is
what catches a stale cache.
"""

from __future__ import annotations

import itertools
import os
from fractions import Fraction

import numpy as np

from vf import l1
from vf.ref import permanent as rp

LEVEL = "exploration"
TOL = 1e-9


def make_state(n):
    from infretis.classes.repex import REPEX_state

    st = REPEX_state.__new__(REPEX_state)
    st._offset = 1
    st._random_count = 0
    st.n = n
    st.rgen = np.random.default_rng(0)
    st.routes = set()
    for name in ("quick_prob", "permanent_prob", "random_prob"):
        orig = getattr(st, name)

        def wrap(*a, _o=orig, _n=name, **k):
            st.routes.add(_n)
            return _o(*a, **k)

        setattr(st, name, wrap)
    return st


def full_matrix(rows):
    """rows: list of plus-ensemble weight tuples (length B-1 each) -> (B+1)x(B+1)
    with the [0-] row first and the ghost row/column last."""
    B = len(rows) + 1
    n = B + 1
    W = np.zeros((n, n))
    W[0, 0] = 1.0
    for k, r in enumerate(rows):
        W[k + 1, 1:B] = r
    return W


def staircase_rows(B):
    """All tuples of 0/1 staircase rows (levels 1..B-1), every ordering."""
    levels = range(1, B)
    for ks in itertools.product(levels, repeat=B - 1):
        yield [tuple(1.0 if j < k else 0.0 for j in range(B - 1)) for k in ks]


def ha_rows(B, alphabet, movemask):
    """High-acceptance rows: for a path of level k the weight in ensemble j<k is
    1 for sh ensembles and a non-increasing value from the alphabet for wf ones."""
    def one_row():
        for k in range(1, B):
            wf_cols = [j for j in range(k) if movemask[j]]
            for vals in itertools.product(alphabet, repeat=len(wf_cols)):
                if any(a < b for a, b in zip(vals[:-1], vals[1:])):
                    continue  # non-increasing in j
                r = [0.0] * (B - 1)
                it = iter(vals)
                for j in range(k):
                    r[j] = float(next(it)) if movemask[j] else 1.0
                yield tuple(r)
    rows = list(one_row())
    for combo in itertools.product(rows, repeat=B - 1):
        yield list(combo)


def judge(st, W, locks, tag, out_viol):
    """One inf_retis call against the oracle; returns route label or None if unreachable."""
    n = W.shape[0]
    Wf = [[Fraction(float(x)) for x in row] for row in W]
    exp = rp.swap_probabilities(Wf, list(locks))
    if exp is None:
        return None
    st.routes = set()
    try:
        got = st.inf_retis(abs(W), np.array(locks, dtype=float))
    except Exception as e:  # noqa: BLE001
        out_viol.append((f"{tag}:raised", f"inf_retis raised {type(e).__name__}: {e}", W, locks))
        return "raised"
    got = np.array(got, dtype=float)
    route = "+".join(sorted(st.routes)) or "trivial"
    expf = np.array([[float(x) for x in r] for r in exp])
    if got.shape != expf.shape:
        out_viol.append((f"{tag}:shape", f"shape {got.shape}", W, locks))
        return "shape"
    if not np.all(np.isfinite(got)):
        out_viol.append((f"{tag}:not-finite", "non-finite probabilities", W, locks))
    elif np.max(np.abs(got - expf)) > TOL:
        i, j = np.unravel_index(np.argmax(np.abs(got - expf)), got.shape)
        out_viol.append((f"{tag}:permanent-ratio", f"P[{i},{j}] = {got[i, j]} but permanents give {expf[i, j]}", W, locks))
    else:
        idle = [k for k in range(n) if not locks[k]]
        blk = got[np.ix_(idle, idle)]
        if np.max(np.abs(blk.sum(0) - 1)) > 1e-8 or np.max(np.abs(blk.sum(1) - 1)) > 1e-8:
            out_viol.append((f"{tag}:doubly-stochastic", "row/column sums differ from 1", W, locks))
        if np.any((np.array(W) == 0) & (got != 0)):
            out_viol.append((f"{tag}:zero-pattern", "non-zero probability where weight is zero", W, locks))
        # code paths agree: permanent_prob on the idle block
        if len(idle) >= 2:
            try:
                pp = np.array(st.permanent_prob(np.array(abs(W))[np.ix_(idle, idle)].astype("longdouble")), dtype=float)
                if np.max(np.abs(pp - blk)) > TOL:
                    out_viol.append((f"{tag}:paths-disagree", "permanent_prob on the idle block differs from inf_retis", W, locks))
            except Exception as e:  # noqa: BLE001
                out_viol.append((f"{tag}:permanent_prob-raised", f"{type(e).__name__}: {e}", W, locks))
    return route


def lock_subsets(B):
    idx = range(B)
    for r in range(0, B):  # never everything busy
        for sub in itertools.combinations(idx, r):
            locks = [0] * (B + 1)
            for k in sub:
                locks[k] = 1
            locks[B] = 1  # ghost
            yield locks


def _job(args):
    from checks import c02_large

    kind, B, chunk, nchunks, extra = args
    st = make_state(B + 1)
    viol = []
    n = skipped = 0
    routes = {}
    gen = staircase_rows(B) if kind == "01" else ha_rows(B, extra["alphabet"], extra["mask"])
    for idx, rows in enumerate(gen):
        if idx % nchunks != chunk:
            continue
        W = full_matrix(rows)
        scales = [None]
        if kind == "ha" and extra.get("scales"):
            scales += extra["scales"]
        for sc in scales:
            W2 = W.copy()
            if sc is not None:
                W2[1] = W2[1] * sc  # rescale one path's weights: P must not change
            for locks in lock_subsets(B):
                r = judge(st, W2, locks, kind, viol)
                if idx % 3 == 0 and not c02_large.crosscheck(W2, locks):
                    raise RuntimeError(f"factorised oracle disagrees with the full permanent oracle: {W2.tolist()} {locks}")
                if r is None:
                    skipped += 1
                    continue
                n += 1
                routes[r] = routes.get(r, 0) + 1
        if len(viol) > 10:
            break
    return kind, B, n, skipped, routes, viol[:10]


class ProbObserver(l1.Observer):
    """L1: cached prob == oracle in every state."""

    def on_state(self, run):
        st = run.state
        W = [[Fraction(float(abs(x))) for x in row] for row in st.state]
        locks = [int(x) for x in st._locks]
        if all(locks):
            return  # every ensemble busy: the sampler does not evaluate P here
        exp = rp.swap_probabilities(W, locks)
        if exp is None:
            raise l1.Violation("l1:no-assignment", "idle block has permanent zero")
        got = np.array(st.prob, dtype=float)
        expf = np.array([[float(x) for x in r] for r in exp])
        if got.shape != expf.shape or np.max(np.abs(got - expf)) > TOL:
            raise l1.Violation("l1:stale-or-wrong-prob",
                               f"state.prob differs from the permanent ratios of the current state/locks "
                               f"(max diff {np.max(np.abs(got - expf)) if got.shape == expf.shape else 'shape'})")


    def on_pick(self, run, md, before, rec):
        """The job handed to a free worker is drawn with the swap probabilities: the (path, ensemble) pair with
        weights P of the state before the pick; the partner of a zero swap with the column of P of the state
        after the first path has been moved into its ensemble and that ensemble has become busy."""
        draws = [d for d in getattr(run, "last_draws", []) if d[0].startswith("pick.choice") and d[2] is not None]
        if not draws:
            return
        st = run.state
        n = st.n
        W = np.array(before["W"], dtype=float)
        locks = [int(x) for x in before["locks"]]

        def exact(Wm, lk):
            e = rp.swap_probabilities([[Fraction(float(abs(x))) for x in row] for row in Wm], lk)
            return None if e is None else np.array([[float(x) for x in r] for r in e])

        lab, c, w = draws[0]
        if len(w) != n * n:
            return
        P = exact(W, locks)
        if P is None:
            return
        w = np.array(w, dtype=float)
        if np.max(np.abs(w / w.sum() - P.flatten() / P.sum())) > 1e-9:
            raise l1.Violation("l1:pick-not-drawn-with-P", "the (path, ensemble) pair of a new job is not drawn with the swap probabilities of the state")
        if len(draws) > 1:
            traj, ens = divmod(int(c), n)
            lab2, c2, w2 = draws[1]
            if len(w2) != n:
                return
            W2 = W.copy()
            W2[[traj, ens]] = W2[[ens, traj]]
            lk2 = list(locks)
            lk2[ens] = 1
            other = st._offset - 1 if ens == st._offset else st._offset
            P2 = exact(W2, lk2)
            if P2 is None:
                return
            col = P2[:, other]
            w2 = np.array(w2, dtype=float)
            if np.max(np.abs(w2 / w2.sum() - col / col.sum())) > 1e-9:
                raise l1.Violation("l1:zero-swap-partner-not-drawn-with-P",
                                   f"the partner path of a zero swap (for ensemble index {other}) is drawn with weights {np.round(w2 / w2.sum(), 6).tolist()} "
                                   f"but the column of P gives {np.round(col / col.sum(), 6).tolist()}")


def _l1_job(args):
    spec_json, max_states = args
    spec = l1.spec_from_json(spec_json)
    stats, viols = l1.bfs(spec, lambda: [ProbObserver()], max_states=max_states, procs=min(16, os.cpu_count() or 1))
    return spec_json, stats, viols


def run(ctx):
    import multiprocessing as mp

    jobs = []
    nch = 16
    for B in ((2, 3, 4, 5) if ctx.quick else (2, 3, 4, 5, 6, 7)):
        for c in range(nch):
            jobs.append(("01", B, c, nch, {}))
    ha = [(3, [1, 2, 3], (True, True)), (3, [1, 2, 3], (False, True)), (4, [1, 2, 3], (True, False, True))]
    if not ctx.quick:
        ha += [(4, [1, 2, 3, 7], (True, True, True)), (5, [1, 3], (False, True, True, True)),
               (4, [0.001, 1, 1e6], (True, True, True))]
    for B, alph, mask in ha:
        for c in range(nch):
            jobs.append(("ha", B, c, nch, dict(alphabet=alph, mask=mask, scales=[2.0, 1e-3, 1e6])))
    from checks import c02_large

    with mp.get_context("fork").Pool(min(16, os.cpu_count() or 1)) as pool:
        lres = pool.map_async(c02_large._job, list(c02_large.cases(ctx.quick)), chunksize=1)
        res = pool.map(_job, jobs, chunksize=1)
        bres = pool.map_async(c02_large.big_block_job, [13, 14, 15] if ctx.quick else [13, 14, 15, 16, 17], chunksize=1)
        lres = lres.get() + bres.get()
    n = skipped = 0
    routes = {}
    seen = set()
    n_large = 0
    for comp, offset, done, rts, viol in lres:
        n_large += done
        ctx.distinct(("large", comp, tuple(rts)))
        for sig, msg, W, locks in viol:
            if sig not in seen:
                seen.add(sig)
                ctx.violation(sig, msg, dict(kind="large", comp=list(comp), offset=offset))
    ctx.set("large_matrices_judged", n_large)
    for kind, B, k, sk, rt, viol in res:
        n += k
        skipped += sk
        for r, c in rt.items():
            routes[(kind, B, r)] = routes.get((kind, B, r), 0) + c
        for sig, msg, W, locks in viol:
            if sig not in seen:
                seen.add(sig)
                ctx.violation(sig, f"B={B}: {msg}; W={np.array(W).tolist()} locks={list(locks)}",
                              dict(kind="matrix", W=np.array(W).tolist(), locks=[int(x) for x in locks], tag=kind))
    for key, c in routes.items():
        ctx.distinct(("route",) + key)
    # L1 part
    # (one worker: every ensemble is idle at each draw, so the idle block is as large and as asymmetric as it gets)
    specs = [l1.Spec(B=3, workers=2), l1.Spec(B=4, workers=2), l1.Spec(B=4, workers=1),
             l1.Spec(B=3, workers=2, moves=["sh", "wf", "wf"], alphabet="ha")]
    if not ctx.quick:
        specs += [l1.Spec(B=4, workers=3), l1.Spec(B=4, workers=2, moves=["sh", "sh", "wf", "wf"], alphabet="ha"), l1.Spec(B=5, workers=2)]
    l1_states = l1_tr = 0
    for sp in specs:
        sj, st, viols = _l1_job((l1.spec_to_json(sp), 40000))
        l1_states += st["states"]
        l1_tr += st["transitions"]
        ctx.distinct(("l1", str(sj), st["states"]))
        if st["capped"]:
            ctx.cap(f"L1 {sj} capped")
        for sig, (msg, rpl) in viols.items():
            rpl = dict(rpl, kind="l1")
            ctx.violation(sig, f"{sj}: {msg}", rpl)
    ctx.set("evaluations", n + l1_tr)
    ctx.set("matrices_judged", n)
    ctx.set("unreachable_skipped", skipped)
    ctx.set("routes", {f"{k[0]}/B{k[1]}/{k[2]}": v for k, v in sorted(routes.items())})
    ctx.set("l1_states", l1_states)
    ctx.set("l1_transitions", l1_tr)
    ctx.set("rule", "all 0/1 staircase row tuples (every ordering) and high-acceptance row tuples from a weight alphabet x "
                    "every lock subset (x row rescalings for HA); distinct = (family, size, code path taken) plus L1 closures")
    ctx.sample(dict(W=full_matrix([(1.0, 1.0), (1.0, 0.0)]).tolist(), locks=[0, 0, 0, 1]))
    ctx.sample(dict(W=full_matrix([(3.0, 2.0), (2.0, 0.0)]).tolist(), locks=[1, 0, 0, 1]))
    ctx.assume("blocks larger than 12 paths (random_prob, a Monte-Carlo estimate) are not decided; matrices with 13-16 plus ensembles are decided when they consist of tight blocks of size <= 3 "
               "(oracle factorised by Hall's theorem, cross-validated against the full permanent oracle on the small enumerations); weights outside the alphabets are not covered")


def replay(data):
    if data.get("kind") == "large":
        from checks import c02_large

        if data["comp"][0] == "bigblock":
            r = c02_large.big_block_job(data["comp"][1])
        else:
            r = c02_large._job((tuple(data["comp"]), data["offset"]))
        return [(sig, msg) for sig, msg, _, _ in r[4]]
    if data.get("kind") == "l1":
        spec = l1.spec_from_json(data["spec"])
        from vf import scratch

        wd = os.path.join(scratch.mkdtemp("l1r"), "run")
        old = os.getcwd()
        try:
            res = l1._guard(lambda ch: l1.run_history(spec, data["choices"], data["n_events"], [ProbObserver()], wd, ops=data.get("ops")))(None)
        finally:
            os.chdir(old)
        return [(res.sig, res.msg)] if isinstance(res, l1.Violation) else []
    W = np.array(data["W"], dtype=float)
    st = make_state(W.shape[0])
    viol = []
    judge(st, W, data["locks"], data["tag"], viol)
    return [(v[0], v[1]) for v in viol]
