"""C05 — the sampler never stalls: a job can always be drawn, sorting terminates.

Same closure as C03 (plus wire-fencing rows and caps), progress invariants in
every state and after every completed step.
"""

from __future__ import annotations

import os
from fractions import Fraction

import numpy as np

from vf import l1
from vf.ref import permanent as rp

from checks import c03

LEVEL = "model_checking"


def install_sort_guard():
    """Bound the iterations of sort_trajstate's while loop (livelock verdict)."""
    from infretis.classes.repex import REPEX_state

    if getattr(REPEX_state, "_vf_guarded", False):
        return
    orig_sort = REPEX_state.sort_trajstate
    orig_swap = REPEX_state.swap

    def swap(self, traj, ens):
        c = getattr(self, "_vf_sort_swaps", None)
        if c is not None:
            self._vf_sort_swaps = c + 1
            if c + 1 > self.n * self.n + self.n:
                raise l1.Violation("sort:livelock", f"sort_trajstate performed more than n^2+n = {self.n * self.n + self.n} swaps")
        return orig_swap(self, traj, ens)

    def sort_trajstate(self):
        self._vf_sort_swaps = 0
        try:
            return orig_sort(self)
        finally:
            self._vf_sort_swaps = None

    REPEX_state.swap = swap
    REPEX_state.sort_trajstate = sort_trajstate
    REPEX_state._vf_guarded = True


class ProgressObserver(l1.Observer):
    def __init__(self):
        self.numbers_seen = set()
        self.last_traj_num = None

    def on_setup(self, run):
        install_sort_guard()
        self.numbers_seen = set(run.state.live_paths())
        self.last_traj_num = run.state.config["current"]["traj_num"]

    def on_state(self, run):
        st = run.state
        locks = [int(x) for x in st._locks]
        if all(locks):
            return
        W = [[Fraction(float(abs(x))) for x in row] for row in st.state]
        if not rp.has_perfect_matching(W, locks):
            raise l1.Violation("state:no-perfect-matching", f"idle block admits no assignment: W={np.array(st.state).tolist()} locks={locks}")
        P = np.array(st.prob, dtype=float)
        if not np.all(np.isfinite(P)):
            raise l1.Violation("state:prob-not-finite", "P contains nan/inf")
        idle = [k for k in range(st.n) if not locks[k]]
        blk = P[np.ix_(idle, idle)]
        if np.max(np.abs(blk.sum(0) - 1)) > 1e-8 or np.max(np.abs(blk.sum(1) - 1)) > 1e-8:
            raise l1.Violation("state:prob-not-stochastic", "idle rows/columns of P do not sum to one")
        if abs(P.sum() - len(idle)) > 1e-8:
            raise l1.Violation("state:prob-mass", "P has mass outside the idle block")

    def on_treat(self, run, md, before, outcome):
        st = run.state
        live = st.live_paths()
        if len(set(live)) != len(live):
            raise l1.Violation("treat:duplicate-live-path", f"live paths {live}")
        for slot in range(st.n - 1):
            if not st._locks[slot] and not st.state[slot][slot] != 0:
                raise l1.Violation("treat:idle-path-zero-weight",
                                   f"after the step, idle path {live[slot]} has zero weight in its ensemble slot {slot}")
        tn = st.config["current"]["traj_num"]
        if tn < self.last_traj_num:
            raise l1.Violation("treat:traj-num-decreased", f"{self.last_traj_num} -> {tn}")
        new = [p for p in live if p not in before["live"]]
        for p in new:
            if p in self.numbers_seen:
                raise l1.Violation("treat:path-number-reused", f"path number {p} was used before")
            if not (self.last_traj_num <= p < tn):
                raise l1.Violation("treat:path-number-out-of-sequence", f"new path {p}, counter {self.last_traj_num}->{tn}")
        self.numbers_seen.update(new)
        self.last_traj_num = tn
        self.restart_loads(run)

    def restart_loads(self, run):
        """The restart.toml written by this step loads: real setup_config, real
        REPEX_state + initiate_ensembles + load_paths on the paths it names."""
        from infretis.classes.repex import REPEX_state
        from infretis.setup import setup_config

        st = run.state
        # L1 keeps paths in memory (StubStore): give setup_config the traj.txt it checks for
        for pn in st.live_paths():
            d = os.path.join("load", str(pn))
            if not os.path.isdir(d):
                os.makedirs(d)
            t = os.path.join(d, "traj.txt")
            if not os.path.isfile(t):
                open(t, "w").close()
        try:
            cfg = setup_config("restart.toml")
        except Exception as e:  # noqa: BLE001
            raise l1.Violation("restart:setup_config-raised", f"{type(e).__name__}: {e}")
        if cfg is None:
            raise l1.Violation("restart:setup_config-none", "setup_config refused the restart file just written")
        by_num = {t.path_number: t for t in st._trajs[:-1]}
        try:
            paths = []
            for pn in cfg["current"]["active"]:
                p = by_num[pn].copy()
                p.path_number = pn
                paths.append(p)
            s2 = REPEX_state(cfg, minus=True)
            s2.traj_data = {}
            s2.initiate_ensembles()
            s2.load_paths(paths)
        except Exception as e:  # noqa: BLE001
            raise l1.Violation("restart:load-raised", f"{type(e).__name__}: {e}")
        if s2.live_paths() != st.live_paths():
            raise l1.Violation("restart:active-order", f"{s2.live_paths()} != {st.live_paths()}")
        # a run continued from this file must not hand out a path number that was used before
        tn = cfg["current"]["traj_num"]
        if tn in self.numbers_seen or tn <= max(self.numbers_seen):
            raise l1.Violation("restart:path-number-would-be-reused",
                               f"restart file carries traj_num={tn} but path numbers up to {max(self.numbers_seen)} are in use")


_C03_SPECS = c03.specs


def specs(ctx):
    out = _C03_SPECS(ctx)
    out.append(l1.Spec(B=4, workers=2, moves=["sh", "wf", "wf", "sh"], alphabet="ha", cap=2.5))
    if ctx.quick:
        # re-sorting with two paths to move needs four plus ensembles with staggered reaches
        out.append(l1.Spec(B=5, workers=1))
    if not ctx.quick:
        out.append(l1.Spec(B=4, workers=3, moves=["sh", "wf", "wf", "wf"], alphabet="ha"))
    return out


def _job(args):
    spec_json, max_states = args
    spec = l1.spec_from_json(spec_json)
    stats, viols = l1.bfs(spec, lambda: [ProgressObserver()], max_states=max_states,
                          procs=min(16, os.cpu_count() or 1))
    return spec_json, stats, viols


def run(ctx):
    orig = c03.specs
    c03.specs = specs
    try:
        c03.run(ctx, jobfn=_job)
    finally:
        c03.specs = orig
    ctx.assume("restart loading is exercised with the in-memory paths the restart file names (L1 has no trajectory files); C06/C08 load from disk")


def replay(data):
    spec = l1.spec_from_json(data["spec"])
    from vf import scratch

    wd = os.path.join(scratch.mkdtemp("l1r"), "run")
    old = os.getcwd()
    try:
        res = l1._guard(lambda ch: l1.run_history(spec, data["choices"], data["n_events"], [ProgressObserver()], wd, ops=data.get("ops")))(None)
    finally:
        os.chdir(old)
    return [(res.sig, res.msg)] if isinstance(res, l1.Violation) else []
