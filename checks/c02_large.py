"""C02 part: more than 12 idle ensembles.

inf_retis switches from exact permanents to a Monte-Carlo estimate for a BLOCK of more than 12
paths.  Whether that switch looks at the right thing can only be seen with more than 12 idle
ensembles, where the full exact oracle (O(n^2 2^n) in rationals) is out of reach.  The oracle
here uses Hall's theorem: rows sorted by reach; if exactly c rows reach no further than column c,
those rows occupy the first c columns in every assignment, so the permanent factorises and the
probabilities are those of the diagonal blocks (zero below them).  The factorised oracle is
cross-validated against the full permanent oracle on every matrix of the small enumerations that
it is given (checks/c02.py calls `crosscheck`).

Matrices: 13..16 plus ensembles made of tight blocks of sizes 1..3 whose high-acceptance weights
cycle through the complete library of block patterns over the alphabet {1, 2, 3}, so that every
pattern occurs at every position; row orders: sorted, reversed, rotated; lock sets: none, [0-],
one ensemble in the middle.
"""

from __future__ import annotations

import itertools
from fractions import Fraction

import numpy as np

from vf.ref import permanent as rp

TOL = 1e-9


def factorised_reference(W, locks):
    """P for a reachable-family matrix (index 0 = [0-], last = ghost) via tight blocks."""
    n = len(W)
    idle = [k for k in range(n) if not locks[k]]
    out = [[Fraction(0)] * n for _ in range(n)]
    plus = [k for k in idle if k != 0]
    if 0 in idle:
        # the [0-] path has weight in [0-] only and no other path has weight there
        if any(W[i][0] for i in plus) or any(W[0][j] for j in plus) or not W[0][0]:
            return None
        out[0][0] = Fraction(1)
    cols = plus
    pos = {c: a for a, c in enumerate(cols)}

    def reach(i):
        nz = [pos[j] for j in cols if W[i][j]]
        if not nz or nz != list(range(len(nz))):
            raise ValueError("row support is not a prefix of the idle columns")
        return len(nz)

    rows = sorted(plus, key=reach)
    start = 0
    for c in range(1, len(cols) + 1):
        n_le = sum(1 for i in rows if reach(i) <= c)
        if n_le > c:
            return None  # no assignment
        if n_le == c:
            blk_rows = [i for i in rows if start < reach(i) <= c]
            blk_cols = cols[start:c]
            if len(blk_rows) != len(blk_cols):
                return None
            sub = tuple(tuple(Fraction(W[i][j]) for j in blk_cols) for i in blk_rows)
            P = rp.prob_matrix_cached(sub)
            if P is None:
                return None
            for a, i in enumerate(blk_rows):
                for b, j in enumerate(blk_cols):
                    out[i][j] = P[a][b]
            start = c
    if start != len(cols):
        return None
    return out


def crosscheck(W, locks):
    """Factorised oracle == full permanent oracle (used on the small enumerations)."""
    Wf = [[Fraction(float(x)) for x in row] for row in W]
    try:
        a = factorised_reference(Wf, locks)
    except ValueError:
        return True
    b = rp.swap_probabilities(Wf, list(locks))
    if a is None or b is None:
        return (a is None) == (b is None)
    return all(a[i][j] == b[i][j] for i in range(len(W)) for j in range(len(W)))


def block_library(size, alphabet=(1, 2, 3)):
    """All tight HA blocks of a size: rows as (reach within block, weights inside the block)."""
    vecs = {k: [v for v in itertools.product(alphabet, repeat=k) if all(a >= b for a, b in zip(v[:-1], v[1:]))]
            for k in range(1, size + 1)}
    out = []
    for reaches in itertools.combinations_with_replacement(range(1, size + 1), size):
        # tight only at the end
        if any(sum(1 for r in reaches if r <= c) >= c for c in range(1, size)):
            continue
        if sum(1 for r in reaches if r <= size) != size:
            continue
        for ws in itertools.product(*[vecs[r] for r in reaches]):
            out.append(tuple(zip(reaches, ws)))
    return out


COMPOSITIONS = [
    (2, 2, 2, 2, 2, 2, 1),  # 13
    (3, 2, 3, 2, 3),  # 13
    (1, 3, 1, 3, 1, 3, 2),  # 14
    (2, 3, 2, 3, 2, 3),  # 15
    (3, 3, 3, 3, 3, 1),  # 16
]


def build(comp, offset, alphabet=(1, 2, 3)):
    """(B+1)x(B+1) weight matrix: [0-] first, plus ensembles, ghost last."""
    nplus = sum(comp)
    n = nplus + 2
    W = np.zeros((n, n))
    W[0, 0] = 1.0
    c0 = 0
    r = 1
    libs = {s: block_library(s, alphabet) for s in set(comp)}
    for t, s in enumerate(comp):
        lib = libs[s]
        blk = lib[(offset * 7 + t * 3) % len(lib)]
        for k, (reach, ws) in enumerate(blk):
            # weights in the earlier blocks' ensembles: any positive non-increasing values
            for j in range(c0):
                W[r, 1 + j] = float(alphabet[-1])
            for j in range(reach):
                W[r, 1 + c0 + j] = float(ws[j])
            r += 1
        c0 += s
    return W


def cases(quick):
    for comp in (COMPOSITIONS[:3] if quick else COMPOSITIONS):
        nlib = max(len(block_library(s)) for s in set(comp))
        for offset in range(0, nlib, 9 if quick else 1):
            yield comp, offset


def _job(args):
    from checks import c02

    comp, offset = args
    W = build(comp, offset)
    n = W.shape[0]
    st = c02.make_state(n)
    viol = []
    done = 0
    routes = set()
    orders = [list(range(1, n - 1)), list(range(n - 2, 0, -1)), list(range(3, n - 1)) + [1, 2]]
    for order in orders:
        perm = [0] + order + [n - 1]
        # 'any ordering of the live paths': rows permuted (row k = path sitting in slot k)
        W2 = W[perm, :]
        for locks in ([0] * (n - 1) + [1], [1] + [0] * (n - 2) + [1], [0] * (n // 2) + [1] + [0] * (n - n // 2 - 2) + [1]):
            Wf = [[Fraction(float(x)) for x in row] for row in W2]
            exp = factorised_reference(Wf, locks)
            if exp is None:
                continue
            st.routes = set()
            try:
                got = np.array(st.inf_retis(abs(W2), np.array(locks, dtype=float)), dtype=float)
            except Exception as e:  # noqa: BLE001
                viol.append(("large:raised", f"inf_retis raised {type(e).__name__}: {e}", W2, locks))
                continue
            done += 1
            routes.update(st.routes)
            expf = np.array([[float(x) for x in r] for r in exp])
            if got.shape != expf.shape or not np.all(np.isfinite(got)):
                viol.append(("large:shape-or-finite", f"shape {got.shape}", W2, locks))
            elif np.max(np.abs(got - expf)) > TOL:
                i, j = np.unravel_index(np.argmax(np.abs(got - expf)), got.shape)
                viol.append(("large:permanent-ratio", f"{n - 2} plus ensembles in blocks {comp}: P[{i},{j}] = {got[i, j]} but the permanents give {expf[i, j]}", W2, locks))
    return comp, offset, done, sorted(routes), viol[:4]


def big_block_job(n):
    """One tight block of n > 12 paths: inf_retis falls back to a Monte-Carlo estimate.  Its value is not
    decided (statistical), but what the property derives for every P is: finite, zero wherever the weight is
    zero, rows and columns of the idle block sum to one."""
    from checks import c02

    W = np.zeros((n + 2, n + 2))
    W[0, 0] = 1.0
    for i in range(n):
        reach = min(i + 2, n)
        vals = sorted((1 + ((i * 7 + j * 5) % 3) for j in range(reach)), reverse=True)  # rows not proportional to 0/1 rows
        for j in range(reach):
            W[1 + i, 1 + j] = float(vals[j])
    st = c02.make_state(n + 2)
    viol = []
    done = 0
    for order in (list(range(1, n + 1)), list(range(n, 0, -1))):
        perm = [0] + order + [n + 1]
        W2 = W[perm, :]
        for locks in ([0] * (n + 1) + [1], [1] + [0] * n + [1]):
            st.routes = set()
            try:
                got = np.array(st.inf_retis(abs(W2), np.array(locks, dtype=float)), dtype=float)
            except Exception as e:  # noqa: BLE001
                viol.append(("large:raised", f"block of {n}: inf_retis raised {type(e).__name__}: {e}", W2, locks))
                continue
            done += 1
            idle = [k for k in range(n + 2) if not locks[k]]
            blk = got[np.ix_(idle, idle)]
            if not np.all(np.isfinite(got)):
                viol.append(("large:not-finite", f"block of {n}: non-finite probabilities", W2, locks))
            elif np.any((W2 == 0) & (got != 0)):
                i, j = np.argwhere((W2 == 0) & (got != 0))[0]
                viol.append(("large:zero-pattern", f"one block of {n} paths (Monte-Carlo route {sorted(st.routes)}): P[{i},{j}] = {got[i, j]} where the weight is zero", W2, locks))
            elif np.max(np.abs(blk.sum(0) - 1)) > 1e-6 or np.max(np.abs(blk.sum(1) - 1)) > 1e-6:
                viol.append(("large:doubly-stochastic", f"one block of {n} paths: row/column sums differ from 1", W2, locks))
    return ("bigblock", n), 0, done, sorted(st.routes), viol[:4]
