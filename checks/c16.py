"""C16 — velocity regeneration changes only velocities, at the right temperature.

The distributional clause is decided as an exact statement about the map from
the job's random stream to the file: engine.rgen is a scripted generator whose
normal()/standard_normal() return chosen z-arrays (all z in an alphabet for
N = 2 atoms).  Oracle: the velocity written for component (i, c) satisfies
m_i v_ic^2 = z_ic^2 k_B T in SI units with constants from an independent table
(which IS 'zero-mean Gaussian with variance k_B T / m' given a standard normal
stream); positions, box, atom identities unchanged; source frame (object and
file) untouched; zero_momentum => total momentum 0 and velocity differences
preserved; (dek, kin_new) equal an independent recomputation; same stream =>
same file.  Engines: CP2K, LAMMPS, TurtleMD, GROMACS (infretis_genvel), ASE.
"""

from __future__ import annotations

import hashlib
import itertools
import os

import numpy as np

from vf import engines, scratch
from vf import scripted_rng as sr

LEVEL = "exploration"

# CODATA 2018
KB = 1.380649e-23
AMU = 1.66053906660e-27
ME = 9.1093837015e-31
BOHR = 5.29177210903e-11
AUT = 2.4188843265857e-17
EV = 1.602176634e-19

UNITS = {
    # engine: (mass unit in kg, velocity unit in m/s, energy unit in J for kinetic energies the engine reports)
    "turtlemd": (AMU, 1e3, 1e3 / 6.02214076e23),
    "gromacs": (AMU, 1e3, 1e3 / 6.02214076e23),
    "lammps": (AMU, 1e5, AMU * 1e10),  # kinetic_energy() of file velocities: g/mol (A/fs)^2
    "cp2k": (ME, BOHR / AUT, 4.3597447222071e-18),
    "ase": (AMU, np.sqrt(EV / AMU), EV),
}


def file_digest(p):
    with open(p, "rb") as f:
        return hashlib.sha1(f.read()).hexdigest()


def masses_of(name, eng):
    if name == "gromacs":
        return np.array(eng.masses, dtype=float).reshape(-1)
    if name == "ase":
        from ase.io import read

        at = read(os.path.join(str(eng.input_path), "conf.traj"))
        return np.array(at.get_masses(), dtype=float)
    return np.array(eng.mass, dtype=float).reshape(-1)


def one(name, T, z, zero_momentum, wd, hetero=False):
    from infretis.classes.system import System

    if hetero:
        sub = os.path.join(wd, "inp")
        if os.path.isdir(sub):
            import shutil

            shutil.rmtree(sub)
        os.makedirs(sub)
        eng, conf, het_m = engines.hetero(name, sub, temperature=T, int_masses=(hetero == "int"))
        return _one(name, T, z, zero_momentum, wd, eng, conf, het_m)
    kw = {}
    if name in ("lammps", "gromacs", "cp2k"):
        kw = dict(temperature=T)
    if name == "ase":
        kw = dict(temperature=T, integrator="velocityverlet")
    if name == "cp2k" and T != 300:
        return None  # the CP2K template fixes the temperature (checked by the engine itself)
    eng, conf = engines.BUILDERS[name](**kw)
    return _one(name, T, z, zero_momentum, wd, eng, conf, None)


def _one(name, T, z, zero_momentum, wd, eng, conf, het_m):
    from infretis.classes.system import System

    if name == "turtlemd":
        eng.temperature = T
        eng._beta = 1 / (eng.boltzmann * T)
    for f in os.listdir(wd):
        if os.path.isfile(os.path.join(wd, f)):
            os.remove(os.path.join(wd, f))
    eng.exe_dir = wd
    rg = sr.make()
    eng.rgen = rg
    calls = []

    def hook(loc, scale, size):
        calls.append(("normal", float(np.max(np.abs(loc))) if np.ndim(loc) else float(loc), np.array(scale, dtype=float), size))
        return np.array(z, dtype=float).reshape(size) * np.array(scale, dtype=float) + loc

    def std_hook(size):
        calls.append(("standard_normal", 0.0, None, size))
        return np.array(z, dtype=float).reshape(size)

    sr._NORMAL_HOOK[0] = hook
    sr._STD_NORMAL_HOOK[0] = std_hook
    try:
        src = System()
        src.set_pos((conf, 0))
        src.order = [1.0]
        before_obj = (src.config, list(src.order), src.vel_rev)
        dig = file_digest(conf)
        work = src.copy()
        dek, kin_new = eng.modify_velocities(work, {"zero_momentum": zero_momentum})
    finally:
        sr._NORMAL_HOOK[0] = None
        sr._STD_NORMAL_HOOK[0] = None
    bad = []
    if (src.config, list(src.order), src.vel_rev) != before_obj:
        bad.append(("source-frame-object-modified", "the frame the shooting point was copied from changed"))
    if file_digest(conf) != dig:
        bad.append(("source-file-modified", f"{conf} changed"))
    if work.config[0] == conf:
        bad.append(("no-new-configuration", "modify_velocities left the system pointing at the source file"))
        return bad
    p0, v0, b0 = engines.read_vel(eng, conf)
    p1, v1, b1 = engines.read_vel(eng, work.config[0])
    if p0.shape != p1.shape or np.max(np.abs(p0 - p1)) > 1e-9:
        bad.append(("positions-changed", f"max position change {np.max(np.abs(p0 - p1)) if p0.shape == p1.shape else 'shape'}"))
    # (a source frame without box information may get the box of the input template: that adds, not changes)
    if b0 is not None and (b1 is None or np.max(np.abs(np.array(b0, dtype=float) - np.array(b1, dtype=float))) > 1e-9):
        bad.append(("box-changed", f"{b0} -> {b1}"))
    if len(calls) != 1:
        bad.append(("stream-use", f"expected one vectorised Gaussian draw from the job stream, saw {len(calls)}"))
        return bad
    mu, vu, eu = UNITS[name]
    m = masses_of(name, eng) if het_m is None else (np.array(eng.mass, dtype=float).reshape(-1) if name == "cp2k" else het_m)
    zz = np.array(z, dtype=float).reshape(len(m), 3)
    if calls[0][0] == "normal":
        if calls[0][1] != 0.0:
            bad.append(("nonzero-mean", f"loc={calls[0][1]}"))
    mv2 = (m[:, None] * mu) * (v1 * vu) ** 2
    want = zz ** 2 * KB * T
    if not zero_momentum:
        scale = KB * T
        if np.max(np.abs(mv2 - want)) > 2e-4 * scale * max(1.0, float(np.max(zz ** 2))):
            i, c = np.unravel_index(np.argmax(np.abs(mv2 - want)), mv2.shape)
            bad.append(("variance-not-kT-over-m", f"atom {i} comp {c}: m v^2 = {mv2[i, c]:.6e} J but z^2 k_B T = {want[i, c]:.6e} J (z={zz[i, c]}, T={T})"))
        # sign and pairing: v = z * sigma
        sig = np.sqrt(KB * T / (m * mu)) / vu
        if np.max(np.abs(v1 - zz * sig[:, None])) > 2e-4 * float(np.max(sig)) * max(1.0, float(np.max(np.abs(zz)))):
            bad.append(("velocity-map", "written velocities are not z * sqrt(k_B T / m) atom by atom"))
    else:
        ptot = np.sum((m[:, None]) * v1, axis=0)
        ref = float(np.max(np.abs(m[:, None] * v1))) or 1.0
        # the file carries velocities to a finite number of decimals (9 for the text formats)
        if np.max(np.abs(ptot)) > 1e-5 * ref + float(np.sum(m)) * 6e-10:
            bad.append(("momentum-not-zero", f"total momentum {ptot} (largest single momentum {ref})"))
        sig = np.sqrt(KB * T / (m * mu)) / vu
        raw = zz * sig[:, None]
        dv_want = raw[0] - raw[1]
        dv_got = v1[0] - v1[1]
        if np.max(np.abs(dv_want - dv_got)) > 2e-4 * float(np.max(sig)) * max(1.0, float(np.max(np.abs(zz)))):
            bad.append(("zero-momentum-changes-relative-velocities", f"{dv_got} vs {dv_want}"))
    # reported kinetic energy
    if eu is not None:
        kin_si = 0.5 * float(np.sum((m[:, None] * mu) * (v1 * vu) ** 2))
        if abs(kin_new * eu - kin_si) > 3e-4 * max(kin_si, KB * T * 1e-3):
            bad.append(("kin_new", f"reported {kin_new * eu:.6e} J, recomputed from the file {kin_si:.6e} J"))
    kin_old_si = 0.5 * float(np.sum((m[:, None] * mu) * (v0 * vu) ** 2))
    if kin_old_si == 0.0 or name == "gromacs":
        pass  # documented: dek = inf when the source has no kinetic energy (gromacs reads it from system.ekin)
    elif eu is not None and abs(dek * eu - (0.5 * float(np.sum((m[:, None] * mu) * (v1 * vu) ** 2)) - kin_old_si)) > 3e-4 * max(kin_old_si, KB * T):
        bad.append(("dek", f"reported {dek * eu:.6e} J"))
    return bad, file_digest(work.config[0])


def _job(args):
    name, T, zm, zs, het = args
    wd = scratch.mkdtemp("c16")
    out = []
    n = 0
    try:
        # another engine object of the same kind has drawn velocities at another temperature earlier in
        # this process (per-ensemble engines): nothing of that may leak into the engine under test
        T_other = 4.0 * T
        try:
            if one(name, T_other, zs[0], zm, wd, hetero=het) is None:
                T_other = None
        except ValueError:
            T_other = None  # CP2K: the input template fixes the temperature
        for k, z in enumerate(zs):
            if T_other is not None and k in (len(zs) // 2,):
                one(name, T_other, z, zm, wd, hetero=het)
            r = one(name, T, z, zm, wd, hetero=het)
            if r is None:
                continue
            n += 1
            if isinstance(r, list):
                bad, dig = r, None
            else:
                bad, dig = r
            # same stream => same file
            if dig is not None and z == zs[0]:
                r2 = one(name, T, z, zm, wd, hetero=het)
                n += 1
                if not isinstance(r2, list) and r2[1] != dig:
                    bad.append(("not-reproducible", "same stream, different genvel file"))
            for clause, msg in bad:
                out.append((f"{name}:{clause}", f"T={T} zero_momentum={zm} masses={'16,1 (integers)' if het == 'int' else ('O,H' if het else 'H,H')} z={list(z)}: {msg}",
                            dict(name=name, T=T, zm=zm, z=list(z), het=het)))
    finally:
        scratch.rmtree(wd)
    seen = {}
    for sig, msg, rp in out:
        seen.setdefault(sig, (msg, rp))
    return (name, T, zm, het), n, seen


def source_untouched(ctx):
    """prepare_shooting_point copies the frame first: the path's frame and file stay untouched."""
    from infretis.classes.path import Path
    from infretis.classes.system import System
    from infretis.core import tis

    n = 0
    for name in ("turtlemd", "lammps", "cp2k", "gromacs", "ase"):
        eng, conf = engines.BUILDERS[name]()
        wd = scratch.mkdtemp("c16s")
        try:
            eng.exe_dir = wd
            eng.rgen = np.random.default_rng(1)
            from infretis.classes.orderparameter import Distance

            eng.order_function = Distance((0, 1), periodic=False)
            p = Path(maxlen=10)
            for k in range(3):
                s = System()
                s.set_pos((conf, 0))
                s.order = [float(k)]
                p.phasepoints.append(s)
            before = [(pp.config, list(pp.order), pp.vel_rev, pp.ekin) for pp in p.phasepoints]
            dig = file_digest(conf)
            rg = np.random.default_rng(2)
            pt, idx, dek = tis.prepare_shooting_point(p, rg, eng, {"tis_set": {"zero_momentum": True}})
            n += 1
            after = [(pp.config, list(pp.order), pp.vel_rev, pp.ekin) for pp in p.phasepoints]
            if after != before:
                ctx.violation(f"{name}:path-frame-modified", f"prepare_shooting_point changed the old path's frame {idx}: {before[idx]} -> {after[idx]}",
                              dict(kind="src", name=name))
            if file_digest(conf) != dig:
                ctx.violation(f"{name}:source-file-modified", "file of the old path changed", dict(kind="src", name=name))
            ctx.distinct(("src", name, idx))
        finally:
            scratch.rmtree(wd)
    return n


def run(ctx):
    import multiprocessing as mp

    alph = (-1.0, 0.0, 2.0) if ctx.quick else (-1.0, 0.0, 1.0, 2.0)
    zs = [z for z in itertools.product(alph, repeat=6)]
    if ctx.quick:
        zs = zs[:: max(1, len(zs) // 120)]  # deterministic stride
    jobs = []
    for name in ("turtlemd", "lammps", "cp2k", "gromacs", "ase"):
        for T in (1.0, 300.0):
            for zm in (False, True):
                jobs.append((name, T, zm, zs, False))
                if T == 300.0:
                    jobs.append((name, T, zm, zs[:: 3 if ctx.quick else 1], True))
                    if name in ("turtlemd", "gromacs"):
                        # the user wrote the masses as integers in the input
                        jobs.append((name, T, zm, zs[:: 6 if ctx.quick else 2], "int"))
    with mp.get_context("fork").Pool(min(16, os.cpu_count() or 1)) as pool:
        res = pool.map(_job, jobs, chunksize=1)
    n = 0
    for key, k, viols in res:
        n += k
        ctx.distinct(("genvel", key, k))
        for sig, (msg, rp) in viols.items():
            ctx.violation(sig, msg, dict(kind="z", **rp))
    n += source_untouched(ctx)
    ctx.set("evaluations", n)
    ctx.set("rule", "engines x temperatures {1, 300} (each preceded and interrupted by a second engine object at 4T in the same process) x zero_momentum x masses {H,H ; O,H} x z-arrays over an alphabet for 2 atoms x 3 components; distinct = (engine, T, zero_momentum, #cases)")
    ctx.sample(dict(engine="lammps", T=300.0, z=[-1.0, 0.0, 2.0, 2.0, -1.0, 0.0], expect="m v^2 = z^2 k_B T per component (SI, CODATA constants)"))
    if ctx.quick:
        ctx.exhaustive = False
        ctx.caps.append("quick tier: a deterministic stride through the 3^6 z-arrays; thorough: all 4^6")
    ctx.assume("the distribution clause is decided as the exact map z -> written velocity (Gaussianity then follows from the standard normal stream); "
               "masses come from the engines' own tables; GROMACS' own velocity generation is outside the property; CP2K only at its template temperature")


def replay(data):
    if data.get("kind") == "src":
        class C:
            def __init__(self):
                self.v = []

            def violation(self, s, m, r):
                self.v.append((s, m))

            def distinct(self, *_):
                pass
        c = C()
        source_untouched(c)
        return [v for v in c.v if v[0].startswith(data["name"])]
    wd = scratch.mkdtemp("c16r")
    try:
        try:  # as in the exploration: another engine object at 4T has been used in this process before
            one(data["name"], 4.0 * data["T"], tuple(data["z"]), data["zm"], wd, hetero=data.get("het", False))
        except ValueError:
            pass
        r = one(data["name"], data["T"], tuple(data["z"]), data["zm"], wd, hetero=data.get("het", False))
        bad = r if isinstance(r, list) else r[0]
        return [(f"{data['name']}:{c}", m) for c, m in bad]
    finally:
        scratch.rmtree(wd)
