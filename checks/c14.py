"""C14 — stored paths read back unchanged; live paths never lose files.

All accept/reject histories up to depth n_ens+3 of the real REPEX_state with
the real PathStorage on real files (vf/l1.py, replay from scratch): accepted
paths span two trajectory files, contain reversed frames, with and without
energies and auxiliary files; delete_old / delete_old_all / keep_traj_fnames
settings; one and two workers (every completion order).  After every step the
live paths are re-loaded with the real load_path and compared, and a reference
model of file ownership and of the deletion lag is checked.
"""

from __future__ import annotations

import hashlib
import os

from vf import l1, scratch
from vf.explore import explore

LEVEL = "model_checking"


def tree_digest(d):
    out = {}
    for dp, dn, fn in os.walk(d):
        for f in fn:
            p = os.path.join(dp, f)
            with open(p, "rb") as fh:
                out[os.path.relpath(p, d)] = hashlib.sha1(fh.read()).hexdigest()
    return out


class StorageObserver(l1.Observer):
    def __init__(self):
        self.initial = {}
        self.replaced = []  # (path number, list of files it owned, index of replacement)
        self.n_repl = 0
        self.queue = []  # reference model of the deletion queue (non-initial replaced paths)

    def on_setup(self, run):
        st = run.state
        self.n_init = st.n - 1
        self.initial = {pn: tree_digest(os.path.join("load", str(pn))) for pn in range(self.n_init)}
        self.delete_old = bool(st.config["output"].get("delete_old", False))
        self.delete_all = bool(st.config["output"].get("delete_old_all", False))
        self.keep = list(st.config["output"].get("keep_traj_fnames", []))
        self.files_of = {}

    def on_treat(self, run, md, before, outcome):
        from infretis.classes.path import load_path

        st = run.state
        live = st.live_paths()
        # 1. round trip of every live path
        for slot, traj in enumerate(st._trajs[:-1]):
            pn = traj.path_number
            d = os.path.join("load", str(pn))
            try:
                lp = load_path(d)
            except (AssertionError, Exception) as e:  # noqa: BLE001
                raise l1.Violation("live-path-does-not-load", f"path {pn}: {type(e).__name__}: {e}")
            if lp.length != traj.length:
                raise l1.Violation("roundtrip:length", f"path {pn}: stored {lp.length} frames, in memory {traj.length}")
            for i, (a, b) in enumerate(zip(lp.phasepoints, traj.phasepoints)):
                if os.path.basename(a.config[0]) != os.path.basename(b.config[0]) or int(a.config[1]) != int(b.config[1]):
                    raise l1.Violation("roundtrip:frame-reference", f"path {pn} frame {i}: {a.config} vs {b.config}")
                if bool(a.vel_rev) != bool(b.vel_rev):
                    raise l1.Violation("roundtrip:velocity-direction", f"path {pn} frame {i}: {a.vel_rev} vs {b.vel_rev}")
                if not abs(float(a.order[0]) - float(b.order[0])) <= 5e-7:
                    raise l1.Violation("roundtrip:order", f"path {pn} frame {i}: {a.order[0]} vs {b.order[0]}")
                if b.vpot is not None and float(b.vpot) == float(b.vpot) and (a.vpot is None or not abs(float(a.vpot) - float(b.vpot)) <= 5e-7):
                    raise l1.Violation("roundtrip:energy", f"path {pn} frame {i}: vpot {a.vpot} vs {b.vpot}")
                if b.ekin is not None and float(b.ekin) == float(b.ekin) and (a.ekin is None or not abs(float(a.ekin) - float(b.ekin)) <= 5e-7):
                    raise l1.Violation("roundtrip:energy", f"path {pn} frame {i}: ekin {a.ekin} vs {b.ekin}")
                want_dir = os.path.realpath(os.path.join(d, "accepted"))
                if os.path.realpath(os.path.dirname(b.config[0])) != want_dir:
                    raise l1.Violation("live-file-outside-own-directory", f"path {pn} frame {i} references {b.config[0]}")
                if not os.path.isfile(b.config[0]):
                    raise l1.Violation("live-path-lost-file", f"path {pn} frame {i}: {b.config[0]} is missing")
            files = sorted({pp.config[0] for pp in traj.phasepoints})
            if pn not in self.files_of:
                # aux files kept alongside
                for f in list(files):
                    for ext in self.keep:
                        aux = os.path.splitext(f)[0] + ext
                        if pn >= self.n_init and f.endswith(".xyz") and not f.endswith("_B.xyz") and not os.path.isfile(aux):
                            raise l1.Violation("keep_traj_fnames:aux-file-not-stored", f"path {pn}: {aux} missing")
                self.files_of[pn] = files
        # 2. initial paths untouched
        for pn, dig in self.initial.items():
            now = tree_digest(os.path.join("load", str(pn)))
            if now != dig:
                raise l1.Violation("initial-path-touched", f"load/{pn} changed: {sorted(set(dig) ^ set(now)) or 'content'}")
        # 3. deletion lag (reference model: FIFO of replaced non-initial paths, capacity n-1)
        for pn in [p for p in before["live"] if p not in live]:
            self.n_repl += 1
            if self.delete_old and pn >= self.n_init:
                deletable = None
                if len(self.queue) > st.n - 2:
                    deletable = self.queue.pop(0)
                self.queue.append(pn)
            self.replaced.append(pn)
        for pn in self.replaced:
            if pn < self.n_init:
                continue
            gone = [f for f in self.files_of.get(pn, []) if not os.path.isfile(f)]
            if gone:
                if not self.delete_old:
                    raise l1.Violation("deleted-without-delete_old", f"files of path {pn} removed: {gone}")
                if pn in self.queue:
                    raise l1.Violation("deleted-before-the-lag", f"files of replaced path {pn} removed while {len(self.queue)} newer "
                                       f"replacements are queued (lag is {st.n - 1})")


def history(spec, depth, ch, wd):
    run = l1.L1Run(spec, ch, wd, [StorageObserver()])
    run.start()
    for _ in range(depth):
        run.event()
    return run.events


def _job(args):
    W, delete_old, delete_all, keep, depth, max_dev = args
    extra = dict(delete_old_all=delete_all)
    if keep:
        extra["keep_traj_fnames"] = [".aux"]
    spec = l1.Spec(B=3, workers=W, real_store=True, rich=True, alphabet="min", delete_old=delete_old, extra=extra)
    wd = os.path.join(scratch.mkdtemp("c14"), "run")
    old = os.getcwd()
    viols = {}
    n = 0
    try:
        def fn(ch):
            return history(spec, depth, ch, wd)

        for ch, res in explore(l1._guard(fn), max_dev=max_dev, free=("complete", "outcome")):
            n += 1
            if isinstance(res, l1.Violation):
                viols.setdefault(res.sig, (res.msg, dict(args=list(args), choices=ch.choices)))
    finally:
        os.chdir(old)
        l1.deactivate()
        scratch.rmtree(os.path.dirname(wd))
    return args, n, viols


def run(ctx):
    import multiprocessing as mp

    jobs = []
    for W in (1, 2):
        depth = (6 if W == 1 else 4) if ctx.quick else (7 if W == 1 else 6)
        for delete_old, delete_all in ((False, False), (True, False), (True, True)):
            for keep in (False, True):
                jobs.append((W, delete_old, delete_all, keep, depth, 1 if ctx.quick else 2 if W == 1 else 1))
    with mp.get_context("fork").Pool(min(16, os.cpu_count() or 1)) as pool:
        res = pool.map(_job, jobs, chunksize=1)
    n = 0
    for args, k, viols in res:
        n += k
        ctx.distinct(("histories", args, k))
        for sig, (msg, rp) in viols.items():
            ctx.violation(sig, f"{args}: {msg}", rp)
    ctx.set("states", n)
    ctx.set("transitions", n * 4)
    ctx.set("evaluations", n)
    ctx.set("traces_validated_against_impl", n)
    ctx.set("rule", "history = accept/reject outcome and completion order at every step (exhaustive) x pick outcomes (deviation bound); "
                    "settings = workers x delete_old x delete_old_all x keep_traj_fnames; distinct = settings with number of histories")
    ctx.sample(dict(settings=list(jobs[3]), example="ACC, REJ, ACC, ACC, ACC, ACC with the default picks"))
    ctx.exhaustive = False
    ctx.caps.append("pick outcomes explored up to the deviation bound; accept/reject outcomes and completion orders exhaustive")
    ctx.assume("accepted paths are written by the harness as two xyz trajectory files (backward part reversed, vel_rev=True), every other one with energies")


def replay(data):
    args = tuple(data["args"])
    W, delete_old, delete_all, keep, depth, max_dev = args
    extra = dict(delete_old_all=delete_all)
    if keep:
        extra["keep_traj_fnames"] = [".aux"]
    spec = l1.Spec(B=3, workers=W, real_store=True, rich=True, alphabet="min", delete_old=delete_old, extra=extra)
    wd = os.path.join(scratch.mkdtemp("c14r"), "run")
    old = os.getcwd()
    from vf.explore import Chooser

    try:
        res = l1._guard(lambda ch: history(spec, depth, Chooser(data["choices"]), wd))(None)
    finally:
        os.chdir(old)
        l1.deactivate()
    return [(res.sig, res.msg)] if isinstance(res, l1.Violation) else []
