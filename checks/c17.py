"""C17 — exactly the requested number of moves runs; each result is consumed once.

(a) The real scheduler() with the lattice engine and the inline runner: all
    (workers, steps) with steps >= workers, every completion order; then every
    (stop point k, new step count) restart, every completion order of the
    restarted run.  Oracle: number of treat_output calls, cstep in the final
    restart file, no job in flight / locked at exit, every future consumed
    exactly once, runner stopped once.
(b) The real aiorunner + future_list on a hand-stepped virtual event loop
    (checks/c17_vloop.py), all interleavings up to a deviation bound.
"""

from __future__ import annotations

import os
import shutil

import tomli

from vf import l2, scenario, scratch
from vf.explore import explore

LEVEL = "model_checking"


def install_counter():
    from infretis.classes.repex import REPEX_state

    if getattr(REPEX_state, "_vf_counted", False):
        return
    orig = REPEX_state.treat_output

    def treat_output(self, md_items):
        REPEX_state._vf_treats = getattr(REPEX_state, "_vf_treats", 0) + 1
        return orig(self, md_items)

    REPEX_state.treat_output = treat_output
    REPEX_state._vf_counted = True


def run_once(d, ch, toml="infretis.toml"):
    from infretis.classes.repex import REPEX_state

    install_counter()
    REPEX_state._vf_treats = 0

    def order(n):
        return ch.choose(n, "complete") if n > 1 else 0

    p = l2.Program(d, order_fn=order)
    res = p.run(toml)
    os.chdir("/verif")
    out = dict(res=res, treats=REPEX_state._vf_treats)
    if res == "done":
        with open(os.path.join(d, "restart.toml"), "rb") as f:
            cur = tomli.load(f)["current"]
        out.update(cstep=cur["cstep"], locked=cur["locked"], submitted=p.runner.submitted, stopped=p.runner.stopped,
                   outstanding=len(p.futures._futures), consumed=[f.consumed for f in p.runner.futures])
    return out


class Killed(BaseException):
    pass


def run_killed(d, ch, kill_after):
    """The run is killed (no clean-up) when the main loop asks for the (kill_after+1)-th completion."""
    calls = {"n": 0}

    def order(n):
        calls["n"] += 1
        if calls["n"] > kill_after:
            raise Killed()
        return ch.choose(n, "complete") if n > 1 else 0

    p = l2.Program(d, order_fn=order)
    try:
        p.run("infretis.toml")
    except Killed:
        pass
    finally:
        os.chdir("/verif")
        scenario.close_loggers()


def judge(o, expect_moves, expect_cstep, tag):
    bad = []
    if o["res"] != "done":
        if expect_moves == 0:
            return bad
        return [(f"{tag}:did-not-run", f"setup_config refused to run although {expect_moves} moves remain")]
    if o["treats"] != expect_moves:
        bad.append((f"{tag}:moves-completed", f"{o['treats']} moves completed, {expect_moves} requested"))
    if o["cstep"] != expect_cstep:
        bad.append((f"{tag}:cstep", f"final restart file has cstep={o['cstep']}, expected {expect_cstep}"))
    if o["locked"]:
        bad.append((f"{tag}:job-in-flight-at-exit", f"final restart file records in-flight jobs {o['locked']}"))
    if o["outstanding"]:
        bad.append((f"{tag}:future-outstanding", f"{o['outstanding']} futures never consumed"))
    if any(c != 1 for c in o["consumed"]):
        bad.append((f"{tag}:result-consumed-not-once", f"consumption counts {o['consumed']}"))
    if o["submitted"] != o["treats"] + o["outstanding"]:
        bad.append((f"{tag}:submitted-vs-consumed", f"{o['submitted']} submitted, {o['treats']} consumed"))
    if o["stopped"] != 1:
        bad.append((f"{tag}:runner-stop", f"runner.stop() called {o['stopped']} times"))
    return bad


def _job(args):
    kind, W, steps, k, N2, seed = args
    base = scratch.mkdtemp("c17")
    out = []
    n = 0
    try:
        if kind == "single":
            def fn(ch):
                d = os.path.join(base, "run")
                if os.path.isdir(d):
                    shutil.rmtree(d)
                scenario.build(d, B=4, workers=W, steps=steps, seed=seed, maxlength=12, screen=0, allowmaxlength=True)
                return run_once(d, ch)

            for ch, o in explore(fn):
                n += 1
                for sig, msg in judge(o, steps, steps, "run"):
                    out.append((sig, f"W={W} steps={steps}: {msg}", ch.choices))
        elif kind == "chain":
            # run to k; restart with the unchanged step count (nothing to do: what a resubmitted batch job does
            # after the run has finished); then restart with a larger step count under every completion order
            from vf.explore import Chooser

            d0 = os.path.join(base, "first")
            scenario.build(d0, B=4, workers=W, steps=k, seed=seed, maxlength=12, screen=0, allowmaxlength=True)
            o0 = run_once(d0, Chooser([]))
            for sig, msg in judge(o0, k, k, "run"):
                out.append((sig, f"W={W} steps={k}: {msg}", []))
            for rep in range(steps):  # `steps` = number of no-op restarts in between
                o1 = run_once(d0, Chooser([]), "restart.toml")
                if o1["res"] == "done":
                    for sig, msg in judge(o1, 0, k, "noop-restart"):
                        out.append((sig, f"W={W}: run to {k}, restarted with steps={k}: {msg}", []))

            def fn(ch):
                d = os.path.join(base, "second")
                if os.path.isdir(d):
                    shutil.rmtree(d)
                shutil.copytree(d0, d)
                l2.set_steps(d, N2)
                return run_once(d, ch, "restart.toml")

            for ch, o in explore(fn):
                n += 1
                for sig, msg in judge(o, N2 - k, N2, "extend-after-noop-restart"):
                    out.append((sig, f"W={W}: run to {k}, restarted {steps}x with steps={k} (nothing to do), then with steps={N2}: {msg}", ch.choices))
        elif kind == "kill":
            # W workers, `steps` steps; killed after k completions under every completion order (W-1 jobs
            # on record), restarted under every completion order
            def fn(ch):
                d = os.path.join(base, "run")
                if os.path.isdir(d):
                    shutil.rmtree(d)
                scenario.build(d, B=4, workers=W, steps=steps, seed=seed, maxlength=12, screen=0, allowmaxlength=True)
                run_killed(d, ch, k)
                return run_once(d, ch, "restart.toml")

            for ch, o in explore(fn):
                n += 1
                for sig, msg in judge(o, steps - k, steps, "kill-restart"):
                    out.append((sig, f"W={W} steps={steps}, killed after {k} completed moves, restarted: {msg}", ch.choices))
        else:
            # run to k with the default order, then restart to N2 under every completion order
            d0 = os.path.join(base, "first")
            scenario.build(d0, B=4, workers=W, steps=k, seed=seed, maxlength=12, screen=0, allowmaxlength=True)
            from vf.explore import Chooser

            o0 = run_once(d0, Chooser([]))
            for sig, msg in judge(o0, k, k, "run"):
                out.append((sig, f"W={W} steps={k}: {msg}", []))

            def fn(ch):
                d = os.path.join(base, "second")
                if os.path.isdir(d):
                    shutil.rmtree(d)
                shutil.copytree(d0, d)
                l2.set_steps(d, N2)
                return run_once(d, ch, "restart.toml")

            for ch, o in explore(fn):
                n += 1
                tag = "restart" if N2 - k >= W else "restart:remaining<workers"
                for sig, msg in judge(o, N2 - k, N2, tag):
                    out.append((sig, f"W={W}: run to {k}, restart with steps={N2}: {msg}", ch.choices))
    finally:
        os.chdir("/verif")
        scratch.rmtree(base)
    seen = {}
    for sig, msg, choices in out:
        seen.setdefault(sig, (msg, choices))
    return args, n, seen


def run(ctx):
    import multiprocessing as mp

    jobs = []
    extra = 3 if ctx.quick else 4
    for W in (1, 2, 3):
        for steps in range(W, W + extra + 1):
            jobs.append(("single", W, steps, 0, 0, 1))
        for k in range(W, W + 3):
            for N2 in range(k, k + W + 2):
                jobs.append(("restart", W, 0, k, N2, 1))
    for W in (1, 2):
        for reps in (1, 2):
            jobs.append(("chain", W, reps, W + 1, W + 3, 1))
    for W in (2, 3):
        for steps in ((W + 2,) if ctx.quick else (W + 1, W + 2, W + 3)):
            for k in range(1, steps - W + 1 if ctx.quick else steps):
                jobs.append(("kill", W, steps, k, 0, 1))
    jobs.sort(key=lambda j: -(j[1] * 10 + j[2] + j[4]))
    with mp.get_context("fork").Pool(min(16, os.cpu_count() or 1)) as pool:
        res = pool.map(_job, jobs, chunksize=1)
    n = 0
    seen = set()
    for args, k, viols in res:
        n += k
        ctx.distinct(("sched", args[:5], k))
        for sig, (msg, choices) in viols.items():
            if sig not in seen:
                seen.add(sig)
                ctx.violation(f"scheduler:{sig}", msg, dict(kind="sched", args=list(args), choices=choices))
    nb = 0
    try:
        from checks import c17_vloop
    except ImportError:
        c17_vloop = None
    if c17_vloop is not None:
        nb = c17_vloop.run_part(ctx)
    ctx.set("states", len(jobs) + ctx.coverage.get("vloop_states", 0))
    ctx.set("transitions", n + nb)
    ctx.set("evaluations", n + nb)
    ctx.set("traces_validated_against_impl", n + nb)
    ctx.set("scheduler_runs", n)
    ctx.set("rule", "(a) (workers, steps), (workers, stop point, new steps) and (workers, steps, kill point) x every completion order of the real scheduler(); "
                    "(b) interleavings of the real aiorunner on a virtual loop; distinct = (parameters, number of schedules)")
    ctx.sample(dict(kind="single", W=3, steps=5, orders="all"))
    ctx.assume("inline runner (synchronous run_md through a pickle boundary) stands for the process pool in part (a)")


def replay(data):
    if data["kind"] == "vloop":
        from checks import c17_vloop

        return c17_vloop.replay(data)
    args, n, viols = _job(tuple(data["args"]))
    return [(f"scheduler:{s}", m) for s, (m, _) in viols.items()]
