"""C08 — a crash at any point leaves a restartable, consistent state.

Fault enumeration on the real REPEX_state with the real PathStorage and real
files (vf/l1.py + vf/faultfs.py): for the last step of every scenario of up to
3 steps (accept/reject in each ensemble, zero swap, delete_old variants, one
and two workers with every completion order, also starting from a restarted
run) the main process is killed after EVERY file-system effect, and for write
effects at several torn prefixes.  The tree left behind must restart; after
continuing (every live path is replaced once more) every replaced path is in the
data file exactly once and no live path is; recorded in-flight jobs are
re-issued first.
"""

from __future__ import annotations

import os

import tomli

from vf import faultfs, l1, scratch
from vf.explore import Chooser, explore

LEVEL = "fault_enumeration"


def mkspec(W, delete_old, delete_all, B=3):
    return l1.Spec(B=B, workers=W, real_store=True, rich=True, alphabet="min", delete_old=delete_old,
                   extra=dict(delete_old_all=delete_all), steps=10**6)


def read_rows(run):
    rows = []
    st = run.state
    with open(st.data_file) as f:
        for ln in f:
            if ln.startswith("#") or not ln.strip():
                continue
            rows.append(int(ln.split()[0]))
    return rows


def stored_paths_differ(run):
    """What a later restart would load: every live path as stored on disk equals the path in memory."""
    from infretis.classes.path import load_path

    out = []
    for traj in run.state._trajs[:-1]:
        d = os.path.join(run.dir, "load", str(traj.path_number))
        try:
            lp = load_path(d)
        except BaseException as e:  # noqa: BLE001
            out.append(("live-path-does-not-load", f"path {traj.path_number}: {type(e).__name__}: {e}"))
            continue
        a = [round(float(pp.order[0]), 6) for pp in lp.phasepoints]
        b = [round(float(pp.order[0]), 6) for pp in traj.phasepoints]
        if a != b:
            out.append(("live-path-on-disk-differs", f"path {traj.path_number}: stored orders {a}, in memory {b}"))
    return out


def scenario(spec, prefix, n_events, restart_before, crash_at, torn, wd, buffered=False, crash2=None):
    """Returns dict(effects=[labels]) in count mode (crash_at None) or dict(violations=[...])."""
    ch = Chooser(prefix)
    run = l1.L1Run(spec, ch, wd, [])
    run.start()
    if getattr(spec, "bump", None):
        # a long-running simulation: new paths get numbers with several digits
        run.state.config["current"]["traj_num"] = spec.bump
    for k in range(n_events - 1):
        run.event()
        if restart_before and k == 0:
            run.restart()  # the crashed step follows an earlier (clean) restart
    cut = len(ch.trace) + 2  # choices before the last step plus its (complete, outcome)
    if crash_at is not None:
        ch.prefix = ch.prefix[:cut]
    with faultfs.section(run.dir, crash_at=crash_at, torn=torn, buffered=buffered) as S:
        try:
            run.event()
            crashed = False
        except faultfs.SimulatedCrash:
            crashed = True
    effects = list(S.log)
    if crash_at is None:
        return dict(effects=effects, choices=ch.choices)
    label = getattr(S, "crash_label", None)
    out = []
    if not crashed:
        return dict(violations=[], label=label, note="no-crash")
    # what the dead process had recorded
    recorded = []
    had_restart = os.path.isfile(os.path.join(run.dir, "restart.toml"))
    if had_restart:
        try:
            with open(os.path.join(run.dir, "restart.toml"), "rb") as f:
                cur = tomli.load(f)["current"]
            recorded = [(tuple(e - 1 for e in l[0]), tuple(int(x) for x in l[1])) for l in cur["locked"]]
        except Exception:  # noqa: BLE001
            recorded = None
    n_issued = len(run.issued)
    effects2 = []
    tree = None
    if crash2 is None:
        from checks import c08_conf

        # what the dead process left behind, not counting temporary files (nobody reads them: checked below)
        tree = tuple(x for x in c08_conf.tree_digest(run.dir) if not x[0].endswith(".tmp"))
    try:
        # the restart repairs what the crash left behind: it has file-system effects of its own,
        # and the process can die again in the middle of them (crash2 = (effect index, torn))
        with faultfs.section(run.dir, crash_at=None if crash2 is None else crash2[0],
                             torn=None if crash2 is None else crash2[1], buffered=buffered) as S2:
            try:
                run.restart()
                crashed2 = False
            except faultfs.SimulatedCrash:
                crashed2 = True
        effects2 = list(S2.log)
        if S2.tmp_reads:
            tree = None
        if crashed2:
            n_issued = len(run.issued)
            run.restart()
    except l1.Violation as v:
        return dict(violations=[("restart-refused", v.msg)], label=label, effects2=effects2, tree=tree)
    except BaseException as e:  # noqa: BLE001
        return dict(violations=[("restart-raises", f"{type(e).__name__}: {e}")], label=label, effects2=effects2, tree=tree)
    st = run.state
    # every active path is present with non-zero weight in its slot and all its files exist
    for slot, traj in enumerate(st._trajs[:-1]):
        if not st.state[slot][slot] != 0 and not st._locks[slot]:
            out.append(("restart-zero-weight-slot", f"path {traj.path_number} has zero weight in slot {slot}"))
        for pp in traj.phasepoints:
            if not os.path.isfile(pp.config[0]):
                out.append(("restart-live-path-lost-file", f"path {traj.path_number}: {pp.config[0]} missing"))
                break
    if recorded:
        first = [(r["ens"], r["pn"]) for r in run.issued[n_issued: n_issued + len(recorded)]]
        if first != recorded:
            out.append(("reissue-differs", f"recorded in-flight {recorded}, re-issued first {first}"))
    if recorded is None:
        out.append(("restart-silently-from-step-0", "restart.toml lacks a readable [current] section, the program silently starts from step 0"))
    if out:
        return dict(violations=out, label=label, effects2=effects2, tree=tree)
    # continue: complete the in-flight jobs, then replace every live path once more
    n = st.n
    todo = list(range(n - 1))

    def diag_pick(nn, weights):
        # next not-yet-replaced idle ensemble slot with its own path (diagonal entry), else the default
        for kk in list(todo):
            idx = kk * n + kk
            if nn == n * n and weights[idx] > 0:
                todo.remove(kk)
                return idx
        return next(i for i, w in enumerate(weights) if w > 0)

    try:
        ch.forced = {"outcome": [1] * (4 * n), "pick.choice": [], "pick.u": [1] * (4 * n)}
        for k in range(len(run.inflight) + n + 1):
            ch.forced["pick.choice"] = [diag_pick]
            run.event()
            for v in stored_paths_differ(run):
                if v not in out:
                    out.append(v)
    except l1.Violation as v:
        return dict(violations=[("continue:" + v.sig, v.msg)], label=label, effects2=effects2, tree=tree)
    except Exception as e:  # noqa: BLE001
        import traceback

        tb = traceback.extract_tb(e.__traceback__)
        where = next((f"{os.path.basename(fr.filename)}:{fr.name}" for fr in reversed(tb) if "/infretis/" in fr.filename), "?")
        return dict(violations=[("continue-raises", f"{type(e).__name__}: {e} in {where}")], label=label, effects2=effects2, tree=tree)
    finally:
        ch.forced = []
    out += stored_paths_differ(run)
    rows = read_rows(run)
    live = run.state.live_paths()
    tn = run.state.config["current"]["traj_num"]
    bump = getattr(spec, "bump", None)
    ever = set(range(tn)) if not bump else (set(range(run.state.n - 1)) | set(range(bump, tn)))
    replaced = sorted(ever - set(live))
    dup = sorted({r for r in rows if rows.count(r) > 1})
    if dup:
        out.append(("row-twice", f"paths {dup} are in the data file more than once"))
    if set(rows) & set(live):
        out.append(("live-path-in-data-file", f"live paths {sorted(set(rows) & set(live))} have a data row"))
    missing = [p for p in replaced if p not in rows]
    if missing:
        out.append(("replaced-path-without-row", f"replaced paths {missing} have no data row"))
    return dict(violations=out, label=label, effects2=effects2, tree=tree)


def window(kind, rel, site):
    """Which phase of the step the process died in."""
    if rel.startswith("restart.toml"):
        return "restart-file-update"
    if rel.startswith("infretis_data"):
        return "data-row-append"
    if kind in ("remove", "rmdir"):
        return "delete-old-paths"
    return "store-new-path"


def histories(spec, n_events, restart_before, wd):
    """All scenario prefixes (completion orders and outcomes exhaustive, picks: default + 1 deviation)."""
    def fn(ch):
        run = l1.L1Run(spec, ch, wd, [])
        run.start()
        if getattr(spec, "bump", None):
            run.state.config["current"]["traj_num"] = spec.bump
        for k in range(n_events):
            run.event()
            if restart_before and k == 0:
                run.restart()
        last_ens = run.issued[-1]["ens"]
        return tuple(r["ens"] for r in run.issued)

    seen = set()
    out = []
    for ch, res in explore(l1._guard(fn), max_dev=1, free=("complete", "outcome")):
        if isinstance(res, l1.Violation):
            continue
        # keep one history per (sequence of completed (ensemble, outcome))
        key = tuple((lab, c) for (c, n, lab, w) in ch.trace if lab.startswith(("complete", "outcome"))) + (res,)
        if key in seen:
            continue
        seen.add(key)
        out.append(ch.choices)
    return out


def _job(args):
    W, delete_old, delete_all, n_events, restart_before, torn_set, hist_slice, per_label = args[:8]
    B = args[8] if len(args) > 8 else 3
    spec = mkspec(W, delete_old, delete_all, B)
    spec.bump = args[9] if len(args) > 9 else None
    wd = os.path.join(scratch.mkdtemp("c08"), "run")
    old = os.getcwd()
    viols = {}
    n = 0
    classes = set()
    try:
        hs = histories(spec, n_events, restart_before, wd)
        hs = hs[hist_slice[0]::hist_slice[1]]
        for prefix in hs:
          trees_done = set()
          for buffered in (False, True):
            base = scenario(spec, prefix, n_events, restart_before, None, None, wd, buffered=buffered)
            eff = base["effects"]
            occ = {}
            for k, lab in enumerate(eff):
                occ.setdefault(lab, []).append(k)
            keep = set()
            for lab, ks in occ.items():
                if per_label is None or len(ks) <= per_label:
                    keep.update(ks)
                else:
                    # first, second, middle, last occurrence of a repeated effect
                    keep.update([ks[0], ks[1], ks[len(ks) // 2], ks[-1]][:per_label])
            for k, (kind, rel, site) in enumerate(eff):
                if k not in keep:
                    continue
                variants = [None]
                if kind in ("write", "flush"):
                    variants = [None] + list(torn_set)
                    if rel.startswith("infretis_data") and "3" not in torn_set:
                        variants.append("3")  # a data row cut inside its first field (the path number)
                for torn in variants:
                    n += 1
                    r = scenario(spec, base["choices"], n_events, restart_before, k, torn, wd, buffered=buffered)
                    classes.add((kind, rel, site, torn is not None, bool(r["violations"]), buffered))
                    for clause, msg in r["violations"]:
                        sig = f"{clause}@{window(kind, rel, site)}"
                        viols.setdefault(sig, (f"{'buffered' if buffered else 'unbuffered'} writes, crash after effect #{k} {(kind, rel, site)} torn={torn}: {msg}",
                                               dict(args=list(args[:5]), B=B, bump=spec.bump, prefix=base["choices"], k=k, torn=torn, buffered=buffered)))
                    # the restart had effects of its own (it repaired something): die in the middle of each
                    # (once per distinct tree the first crash left behind: the dead process has no other state)
                    tkey = (buffered, r.get("tree"))
                    if r.get("tree") is not None and tkey in trees_done:
                        continue
                    trees_done.add(tkey)
                    for k2, (kind2, rel2, site2) in enumerate(r.get("effects2") or []):
                        for torn2 in ([None] + list(torn_set) if kind2 in ("write", "flush") else [None]):
                            n += 1
                            r2 = scenario(spec, base["choices"], n_events, restart_before, k, torn, wd, buffered=buffered, crash2=(k2, torn2))
                            classes.add(("recovery", kind2, rel2, site2, torn2 is not None, bool(r2["violations"]), buffered))
                            for clause, msg in r2["violations"]:
                                sig = f"{clause}@recovery:{window(kind2, rel2, site2)}"
                                viols.setdefault(sig, (f"{'buffered' if buffered else 'unbuffered'} writes, crash after effect #{k} {(kind, rel, site)} torn={torn}, "
                                                       f"then a second crash during the restart after its effect #{k2} {(kind2, rel2, site2)} torn={torn2}: {msg}",
                                                       dict(args=list(args[:5]), B=B, bump=spec.bump, prefix=base["choices"], k=k, torn=torn, buffered=buffered, crash2=[k2, torn2])))
    finally:
        os.chdir(old)
        l1.deactivate()
        faultfs.uninstall()
        scratch.rmtree(os.path.dirname(wd))
    return args, n, len(hs), sorted(classes), viols


def recorded_after_restart(args):
    """After a restart the jobs recorded for the next restart must again be exactly the jobs in flight
    (so that a crash that follows an earlier restart re-issues them): every completion order and outcome,
    restart after the first or second step, two more steps."""
    from checks import c03

    W, restart_after = args
    spec = l1.Spec(B=3, workers=W, real_store=True, alphabet="min")
    wd = os.path.join(scratch.mkdtemp("c08r"), "run")
    old = os.getcwd()
    viols = {}
    n = 0
    try:
        def fn(ch):
            run = l1.L1Run(spec, ch, wd, [c03.MutexObserver()])
            run.start()
            for _ in range(restart_after):
                run.event()
            run.restart()
            run.event()
            run.event()
            return "ok"

        for ch, res in explore(l1._guard(fn), max_dev=1, free=("complete", "outcome")):
            n += 1
            if isinstance(res, l1.Violation) and res.sig == "state:recorded-inflight-jobs":
                viols.setdefault("recorded-jobs-after-restart", (f"W={W}, restart after {restart_after} step(s): {res.msg}",
                                                                dict(kind="rec", W=W, restart_after=restart_after, choices=ch.choices)))
            elif isinstance(res, l1.Violation):
                viols.setdefault("after-restart:" + res.sig, (res.msg, dict(kind="rec", W=W, restart_after=restart_after, choices=ch.choices)))
    finally:
        os.chdir(old)
        l1.deactivate()
        scratch.rmtree(os.path.dirname(wd))
    return args, n, viols


def run(ctx):
    import multiprocessing as mp

    torn = ("len-1",) if ctx.quick else ("1", "half", "len-1")
    per_label = 4 if ctx.quick else None
    jobs = []
    nsl = 4
    for W in (1, 2):
        for delete_old, delete_all in ((False, False), (True, True)) if ctx.quick else ((False, False), (True, False), (True, True)):
            for n_events, restart_before in ((1, False), (2, False), (3, False), (3, True)) if not ctx.quick else ((2, False),) + (((3, True),) if W == 1 else ()):
                if delete_old and n_events < 3 and not ctx.quick:
                    continue
                for sl in range(nsl):
                    jobs.append((W, delete_old, delete_all, n_events, restart_before, torn, (sl, nsl), per_label))
    # path numbers with several digits (a simulation that has been running for a while)
    jobs.append((1, False, False, 2, False, torn, (0, 1 if not ctx.quick else 2), per_label, 3, 97))
    # the smallest system (two interfaces: [0-] and [0+] only), where the deletion lag is one step
    jobs.append((1, True, True, 3, False, torn, (0, 1), per_label, 2))
    jobs.append((1, True, False, 4, False, torn, (0, 2 if ctx.quick else 1), per_label, 2))
    # long enough for the deletion lag to fire (one ensemble accepted repeatedly)
    jobs.append((1, True, True, 6, False, torn, (0, 9 if not ctx.quick else 30), per_label))
    if not ctx.quick:
        jobs.append((1, True, False, 6, False, torn, (1, 9), per_label))
    with mp.get_context("fork").Pool(min(16, os.cpu_count() or 1)) as pool:
        rres = pool.map_async(recorded_after_restart, [(2, 1), (2, 2)], chunksize=1)
        from checks import c08_conf

        cres = pool.map_async(c08_conf._job, c08_conf.cases(ctx.quick), chunksize=1)
        res = pool.map(_job, jobs, chunksize=1)
        rres = rres.get()
        conf_problems = c08_conf.summarise(ctx, cres.get())
    n = nh = 0
    for args, k, viols in rres:
        n += k
        ctx.distinct(("recorded-after-restart", args, k))
        for sig, (msg, rp) in viols.items():
            ctx.violation(sig, msg, rp)
    seen = set()
    for args, k, h, classes, viols in res:
        n += k
        nh += h
        for c in classes:
            ctx.distinct(("crash-class",) + tuple(c))
        if len(args) > 8:
            ctx.distinct(("two-interfaces", tuple(args[:5]), k))
        for sig, (msg, rp) in viols.items():
            if sig not in seen:
                seen.add(sig)
                ctx.violation(sig, f"{args[:5]}: {msg}", rp)
    if conf_problems and not seen:
        from vf.runner import HarnessError

        raise HarnessError(f"crash model does not cover what a really dying process leaves behind: {conf_problems[:3]}")
    ctx.set("evaluations", n)
    ctx.set("crash_restart_cycles", n)
    ctx.set("scenarios", nh)
    ctx.set("rule", "scenario = history of <= 3 steps (outcomes and completion orders exhaustive, picks with one deviation, deduplicated by completed (ensemble, outcome) sequence) "
                    "x crash after every counted file-system effect of the last step x torn prefixes of writes x (where the restart itself writes) a second crash after every effect of the restart; "
                    "distinct = (effect kind, normalised path, call site, torn?, violated?)")
    ctx.sample(dict(effect=["write", "restart.toml", "repex.py:write_toml"], torn="len-1"))
    ctx.sample(dict(effect=["move", "load/<n>/accepted/acc<n>_e<n>.xyz", "formatter.py:_move_path"], torn=None))
    if ctx.quick:
        ctx.exhaustive = False
        ctx.caps.append("quick tier: of an effect repeated more than 4 times within a step (e.g. the ~60 writes of restart.toml) only the first, second, middle and last occurrence are crashed; the thorough tier crashes after every effect")
    ctx.assume("crash = the main process dies between two effects; writes are unbuffered (a buffered writer can only lose more of an unflushed file, covered by the torn prefixes); "
               "worker scratch directories and logs are not part of the state; every scenario is run under two write models: unbuffered (each write() reaches the disk) and buffered (data reaches the disk at flush/close/8 KiB, so renames and removes can overtake it)")


def replay(data):
    if data.get("kind") == "rec":
        a, n, viols = recorded_after_restart((data["W"], data["restart_after"]))
        return [(sig, msg) for sig, (msg, _) in viols.items()]
    W, delete_old, delete_all, n_events, restart_before = data["args"]
    spec = mkspec(W, delete_old, delete_all, data.get("B", 3))
    spec.bump = data.get("bump")
    wd = os.path.join(scratch.mkdtemp("c08r"), "run")
    old = os.getcwd()
    try:
        buffered = data.get("buffered", False)
        base = scenario(spec, data["prefix"], n_events, restart_before, None, None, wd, buffered=buffered)
        kind, rel, site = base["effects"][data["k"]]
        if data.get("crash2"):
            r0 = scenario(spec, data["prefix"], n_events, restart_before, data["k"], data["torn"], wd, buffered=buffered)
            kind2, rel2, site2 = r0["effects2"][data["crash2"][0]]
            r = scenario(spec, data["prefix"], n_events, restart_before, data["k"], data["torn"], wd, buffered=buffered, crash2=tuple(data["crash2"]))
            return [(f"{c}@recovery:{window(kind2, rel2, site2)}", m) for c, m in r["violations"]]
        r = scenario(spec, data["prefix"], n_events, restart_before, data["k"], data["torn"], wd, buffered=buffered)
        return [(f"{c}@{window(kind, rel, site)}", m) for c, m in r["violations"]]
    finally:
        os.chdir(old)
        l1.deactivate()
        faultfs.uninstall()
