"""C11 — zero swaps exchange the crossing frames and are reversible.

(1) All valid ([0-],[0+]) path pairs of the lattice walk up to a length, tight
    and loose length limits, all engine outcomes of the real retis_swap_zero:
    junction identity, ensemble membership, old paths untouched.
(2) Deterministic, exactly reversible ballistic dynamics: swapping twice
    restores both order-parameter sequences, for every pair.
(3) QuanTIS: potentials from a small table, every cell of the acceptance draw;
    P(accept) equals min(1, exp(beta0*dV0 - beta1*dV1)), equality accepted,
    accept_all honoured.
(4) lambda_-1 variant: a [0-] path that ended on the left is rejected with
    zero propagation calls.
"""

from __future__ import annotations

import itertools
import math
import os
from fractions import Fraction

import numpy as np

from vf import lattice as lat
from vf import moves
from vf import scripted_rng as sr
from vf.explore import Chooser, explore
from vf.ref import latticepaths as lp

from infretis.core import tis

LEVEL = "model_checking"


def _swap_job(args):
    name, B, M, o0, o1, move1, cap = args
    dyn = lat.SYMMETRIC(B) if name == "sym" else lat.DRIFTED(B)
    K, recs, n = moves.swap_kernel(dyn, o0, o1, M, move1=move1, cap=cap)
    bad = []
    outs = set()
    for r in recs:
        outs.add((r["status"], r["new"]))
        for code, text in r["clauses"]:
            bad.append((code, text, r["choices"]))
        # status logic: rejected statuses must be one of the documented ones
        if not r["accept"] and r["status"] not in ("BTX", "BTS", "FTX", "FTS", "0-L", "HAS"):
            bad.append(("status", f"unexpected status {r['status']}", r["choices"]))
    return (name, B, M, move1, cap), (o0, o1), n, bad, sorted(outs, key=str)


# ---------------------------------------------------------------------------
# (2) ballistic double swap
# ---------------------------------------------------------------------------


ENGINE_VARIANTS = [
    dict(depth=(0, 1, 2), height=(1, 2, 2), swap01=(1, 0, 2)),
    dict(depth=(2, 0, 1), height=(2, 1, 3), swap01=(0, 2, 1)),
    dict(depth=(1, 1, 3), height=(3, 1, 2), swap01=(2, 1, 0)),
    dict(depth=(0, 0, 0), height=(1, 1, 1), swap01=(0, 1, 2)),
]


def ballistic_case(ev, ca, cb, B, M):
    """Engine variant ev, colours of the [0-] / [0+] trajectories."""
    bad = []
    eng = lat.BallisticEngine(**ENGINE_VARIANTS[ev])
    intf0 = (float("-inf"), 0.5, 0.5)
    intf1 = (0.5, 0.5, B - 0.5)
    p0 = lat.ballistic_path(eng, 1, -1, ca, intf0, M, tag="old0")
    p1 = lat.ballistic_path(eng, 0, 1, cb, intf1, M, tag="old1")
    if p0.length > M or p1.length > M or lat.sites(p1)[-1] != 0:
        return bad, None  # not a valid pair for this limit / reaches B
    tis_set = {"maxlength": M, "lambda_minus_one": False, "quantis": False, "accept_all": False}

    def es(kind):
        e = lat.ens_set(kind, B, M, rgen=None, i=0)
        e["tis_set"] = tis_set
        return e

    def swap(a, b):
        picked = {-1: {"ens": es("minus"), "traj": a}, 0: {"ens": es("zero"), "traj": b}}
        return tis.retis_swap_zero(picked, {-1: [eng], 0: [eng]})

    acc, (n0, n1), st = swap(p0, p1)
    rec = dict(ev=ev, ca=ca, cb=cb, B=B, M=M, first=(acc, st, lat.sites(n0), lat.sites(n1)),
               changed=(lat.sites(n0) != lat.sites(p0), lat.sites(n1) != lat.sites(p1)))
    if not acc:
        return bad, rec
    if lat.phys(n0)[-2:] != lat.phys(p1)[:2]:
        bad.append(("junction-minus", f"new [0-] ends {lat.phys(n0)[-2:]}, old [0+] starts {lat.phys(p1)[:2]}"))
    if lat.phys(n1)[:2] != lat.phys(p0)[-2:]:
        bad.append(("junction-plus", f"new [0+] starts {lat.phys(n1)[:2]}, old [0-] ends {lat.phys(p0)[-2:]}"))
    acc2, (m0, m1), st2 = swap(n0, n1)
    rec["second"] = (acc2, st2, lat.sites(m0), lat.sites(m1))
    if not acc2:
        at_limit = p0.length == M or p1.length == M
        bad.append(("double-swap" + (":old-path-at-maxlength" if at_limit else ""),
                    f"first swap accepted, second swap rejected with {st2} (variant {ev}, colours {ca},{cb}, "
                    f"maxlength={M}, old lengths {p0.length},{p1.length})"))
    elif lat.sites(m0) != lat.sites(p0) or lat.sites(m1) != lat.sites(p1):
        bad.append(("double-swap", f"swap twice: [0-] {lat.sites(p0)} -> {lat.sites(m0)}, [0+] {lat.sites(p1)} -> {lat.sites(m1)}"))
    elif lat.phys(m0) != lat.phys(p0) or lat.phys(m1) != lat.phys(p1):
        bad.append(("double-swap-phase", f"swap twice restores sites but not phase points: {lat.phys(m0)} vs {lat.phys(p0)}"))
    return bad, rec


# ---------------------------------------------------------------------------
# (3) QuanTIS
# ---------------------------------------------------------------------------

def vtable(k):
    """Potentials of the two levels of theory on (site, colour)."""
    V0, V1 = {}, {}
    for x in range(-3, 4):
        for c in range(3):
            if k == 0:
                V0[(x, c)] = V1[(x, c)] = 0.0
            elif k == 1:
                V0[(x, c)] = 0.5 * c + 0.25 * x
                V1[(x, c)] = 1.5 * ((c + 1) % 3) - 0.5 * x
            elif k == 2:
                V0[(x, c)] = 2.0 * (c == 0) + 1.0 * (x == 1)
                V1[(x, c)] = 1.0 * (c == 2) + 3.0 * (x == 0) * (c == 1)
            else:
                V0[(x, c)] = math.log(2.0) * c
                V1[(x, c)] = 0.0
    return V0, V1


N_VTABLES = 4


_EXE = []


def _exe_dir():
    if not _EXE:
        from vf import scratch

        _EXE.append(scratch.mkdtemp("c11exe"))
    return _EXE[0]


def quantis_case(vi, beta0, beta1, ca, cb, accept_all, forced=None, M=14, variant=None):
    V0, V1 = vtable(vi)
    B = 4
    intf0 = (float("-inf"), 0.5, 0.5)
    intf1 = (0.5, 0.5, B - 0.5)

    def fn(ch):
        sr.use(ch)
        if forced is not None:
            sr.force_random([forced])
        eng0 = lat.BallisticEngine(vpot=V0, beta=beta0, name="q0-", **(variant or {}))
        eng1 = lat.BallisticEngine(vpot=V1, beta=beta1, name="q1-", **(variant or {}))
        p0 = lat.ballistic_path(eng0, 1, -1, ca, intf0, M, tag="old0")
        p1 = lat.ballistic_path(eng1, 0, 1, cb, intf1, M, tag="old1")
        eng0.n_propagate = eng1.n_propagate = 0
        tis_set = {"maxlength": M, "lambda_minus_one": False, "quantis": True, "accept_all": accept_all}
        e0 = lat.ens_set("minus", B, M, rgen=sr.make())
        e1 = lat.ens_set("zero", B, M, rgen=sr.make(), i=0)
        e0["tis_set"] = e1["tis_set"] = tis_set
        # through the real run_md / select_shoot, as a worker does it
        picked = {-1: {"ens": e0, "traj": p0, "eng_idx": {"q0": 0}, "exe_dir": _exe_dir()},
                  0: {"ens": e1, "traj": p1, "eng_idx": {"q1": 0}, "exe_dir": _exe_dir()}}
        md = {"picked": picked, "moves": [], "trial_len": [], "trial_op": [], "generated": [],
              "mc_moves": ["sh"] * (B + 1), "interfaces": lat.interfaces(B), "cap": None}
        saved = getattr(tis, "ENGINES", None)
        tis.ENGINES = {"q0": [eng0], "q1": [eng1]}
        try:
            md = tis.run_md(md)
        finally:
            tis.ENGINES = saved
        st = md["status"]
        acc = st == "ACC"
        new = [picked[-1]["traj"], picked[0]["traj"]]
        kept_old = picked[-1]["traj"] is p0 and picked[0]["traj"] is p1
        replaced_both = picked[-1]["traj"] is not p0 and picked[0]["traj"] is not p1
        sr.force_random(None)
        # reference energies straight from the tables: r_lo = old [0-][-2], r_hi = old [0+][0]
        r0 = lat.phys(p0)[-2]
        r1 = lat.phys(p1)[0]
        k0 = (r0[0], r0[2])
        k1 = (r1[0], r1[2])
        dV0 = V0[k0] - V0[k1]
        dV1 = V1[k0] - V1[k1]
        return dict(acc=bool(acc), st=st, dV0=dV0, dV1=dV1, olds=(lat.sites(p0), lat.sites(p1)),
                    new=tuple(lat.sites(x) for x in new), kept_old=kept_old, replaced_both=replaced_both)

    pacc = Fraction(0)
    recs = []
    for ch, r in explore(fn):
        r["p"] = ch.prob()
        recs.append(r)
        if r["acc"]:
            pacc += ch.prob()
    return pacc, recs


def run_quantis(ctx):
    n = 0
    for vi in range(N_VTABLES):
        for beta0, beta1 in ((1.0, 1.0), (0.5, 2.0), (2.0, 0.25)):
            for ca, cb in itertools.product(range(3), repeat=2):
                for accept_all in (False, True):
                    pacc, recs = quantis_case(vi, beta0, beta1, ca, cb, accept_all)
                    n += len(recs)
                    r = recs[0]
                    ref = float(min(1.0, np.exp(r["dV0"] * beta0 - r["dV1"] * beta1)))
                    ctx.distinct(("quantis", vi, beta0, beta1, ca, cb, accept_all, float(pacc)))
                    rp = dict(kind="quantis", vi=vi, b0=beta0, b1=beta1, ca=ca, cb=cb, aa=accept_all)
                    sts = sorted({x["st"] for x in recs})
                    bad_status = [s for s in sts if s not in ("ACC", "QEA")]
                    if bad_status:
                        ctx.violation("quantis:status", f"table {vi} betas {beta0},{beta1} colours {ca},{cb}: statuses {sts}", rp)
                        continue
                    want = 1.0 if accept_all else ref
                    if abs(float(pacc) - want) > 1e-12:
                        ctx.violation(
                            "quantis:acceptance" + (":accept_all" if accept_all else ""),
                            f"table {vi} betas {beta0},{beta1} colours {ca},{cb} accept_all={accept_all}: P(accept)={float(pacc)} "
                            f"but min(1, exp(b0*dV0 - b1*dV1)) = {ref} (dV0={r['dV0']}, dV1={r['dV1']})", rp)
                    if not accept_all and ref < 1.0:
                        pe, re_ = quantis_case(vi, beta0, beta1, ca, cb, False, forced=ref)
                        n += len(re_)
                        if pe != 1:
                            ctx.violation("quantis:acceptance-equality",
                                          f"table {vi} betas {beta0},{beta1} colours {ca},{cb}: u == pacc = {ref} rejected", rp)
    # tight length limits: the new paths may not fit; whatever is accepted must still be a member of its ensemble
    B = 4
    variants = ENGINE_VARIANTS + [dict(depth=(0, 0, 1), height=(2, 1, 2), swap01=(0, 1, 2)),
                                  dict(depth=(0, 0, 0), height=(2, 2, 1), swap01=(1, 0, 2))]
    for vi, variant in itertools.product(range(min(N_VTABLES, 2)), variants):
        for ca, cb in itertools.product(range(3), repeat=2):
            for M in (4, 5, 6, 7, 8):
                try:
                    pacc, recs = quantis_case(vi, 1.0, 1.0, ca, cb, True, M=M, variant=variant)
                except Exception as e:  # noqa: BLE001
                    if "maxlen" in str(e) or isinstance(e, (AssertionError, IndexError)):
                        continue  # the old paths themselves do not fit under this limit
                    raise
                n += len(recs)
                statuses = sorted({x["st"] for x in recs})
                ctx.distinct(("quantis-tight", vi, str(variant), ca, cb, M, tuple(statuses)))
                rp = dict(kind="quantis", vi=vi, b0=1.0, b1=1.0, ca=ca, cb=cb, aa=True)
                for r in recs:
                    if any(len(o) > M for o in r["olds"]):
                        break
                    if (not r["acc"] and not r["kept_old"]) or (r["acc"] and not r["replaced_both"]):
                        ctx.violation("quantis:half-swap",
                                      f"table {vi} colours {ca},{cb} maxlength {M}: move reported {r['st']} but afterwards the ensembles hold "
                                      f"{'a new path' if not r['kept_old'] else 'an old path'} ({r['new']}) — a swap replaces both paths or none", rp)
                        return n
                    if not r["acc"]:
                        continue
                    n0, n1 = r["new"]
                    ok0 = len(n0) >= 3 and len(n0) <= M and n0[0] >= 1 and n0[-1] >= 1 and all(x <= 0 for x in n0[1:-1])
                    ok1 = (len(n1) >= 3 and len(n1) <= M and n1[0] <= 0 and all(1 <= x <= B - 1 for x in n1[1:-1])
                           and (n1[-1] <= 0 or n1[-1] >= B))
                    if not (ok0 and ok1):
                        ctx.violation("quantis:accepted-path-not-a-member",
                                      f"table {vi} colours {ca},{cb} maxlength {M}: accepted new paths {n0} / {n1} (status {r['st']}) "
                                      f"are not both complete paths of their ensembles within the length limit", rp)
                        return n
    return n


# ---------------------------------------------------------------------------
# (4) lambda_-1: [0-] path that ended on the left
# ---------------------------------------------------------------------------


def run_lm1(ctx):
    """[0-] with lambda_-1 = -1.5: interfaces (-1.5, -0.5, 0.5), start_cond L,R."""
    n = 0
    B, M = 3, 9
    lm1 = -1.5
    dyn = lat.Dyn(B, name="sym-lm1")
    # walk is only used by the [0+] side; [0-] paths are hand-made over sites -2..1
    endings = {
        "R->L": (1, 0, -1, -2),
        "L->L": (-2, -1, 0, -1, -2),
        "L->R": (-2, -1, 0, 1),
        "R->R": (1, 0, 0, 1),
    }
    for name, s0 in endings.items():
        for s1 in lp.enumerate_paths(dyn, "plus", 5, i=0):
            def fn(ch, s0=s0, s1=s1):
                sr.use(ch)
                eng0 = lat.MemLatticeEngine(dyn)
                eng1 = lat.MemLatticeEngine(dyn)
                eng0.rgen = sr.make()
                eng1.rgen = sr.make()
                e0 = lat.ens_set("minus", B, M, rgen=sr.make(), lambda_minus_one=lm1)
                e1 = lat.ens_set("zero", B, M, rgen=sr.make(), i=0, lambda_minus_one=lm1)
                e1["tis_set"] = e0["tis_set"]
                p0 = lat.mk_path(s0, maxlen=M, tag="old0")
                p1 = lat.mk_path(s1, maxlen=M, tag="old1")
                acc, new, st = tis.retis_swap_zero({-1: {"ens": e0, "traj": p0}, 0: {"ens": e1, "traj": p1}},
                                                   {-1: [eng0], 0: [eng1]})
                return bool(acc), st, eng0.n_propagate + eng1.n_propagate, new[0] is p0 and new[1] is p1
            accepted_somewhere = False
            for ch, (acc, st, nprop, same) in explore(fn):
                n += 1
                ctx.distinct(("lm1", name, acc, st, nprop > 0))
                rp = dict(kind="lm1", s0=list(s0), s1=list(s1), choices=ch.choices)
                if name.endswith("->L"):
                    if acc or nprop != 0 or st != "0-L" or not same:
                        ctx.violation("lm1:left-ending-not-rejected-early",
                                      f"[0-] {s0} ended left: accept={acc} status={st} propagate calls={nprop} inputs returned={same}", rp)
                        return n
                else:
                    accepted_somewhere = accepted_somewhere or acc
                    if st == "0-L" or nprop == 0:
                        ctx.violation("lm1:right-ending-rejected-as-left",
                                      f"[0-] {s0} ended right of lambda_0 but the swap was refused with status {st} after {nprop} propagate calls", rp)
                        return n
            if name.endswith("->R") and not accepted_somewhere:
                ctx.violation("lm1:right-ending-never-accepted", f"[0-] {s0} with [0+] {s1}: no engine outcome leads to an accepted swap",
                              dict(kind="lm1", s0=list(s0), s1=list(s1), choices=[]))
                return n
    return n


def run(ctx):
    import multiprocessing as mp

    sjobs = []
    for name, B, M, move1, cap in (
        ("sym", 3, 5, "sh", None), ("sym", 3, 7 if ctx.quick else 9, "sh", None),
        ("drift", 3, 6 if ctx.quick else 8, "sh", None),
        ("sym", 4, 6 if ctx.quick else 8, "sh", None),
        ("sym", 3, 6 if ctx.quick else 7, "wf", None),
        ("sym", 4, 6 if ctx.quick else 7, "wf", 2.5),
    ):
        dyn = lat.SYMMETRIC(B) if name == "sym" else lat.DRIFTED(B)
        for o0 in lp.enumerate_paths(dyn, "minus", M):
            for o1 in lp.enumerate_paths(dyn, "plus", M, i=0):
                sjobs.append((name, B, M, o0, o1, move1, cap))
    with mp.get_context("fork").Pool(min(16, os.cpu_count() or 1)) as pool:
        sres = pool.map(_swap_job, sjobs, chunksize=1)
    n_swap = 0
    seen = set()
    statuses = set()
    for key, olds, n, bad, outs in sres:
        n_swap += n
        statuses.update(o[0] for o in outs)
        ctx.distinct(("swap", key, olds, len(outs)))
        for code, text, choices in bad:
            sig = f"swap0:{code}"
            if sig not in seen:
                seen.add(sig)
                ctx.violation(sig, f"{key} olds={olds}: {text}",
                              dict(kind="swap", key=list(key), olds=[list(o) for o in olds], choices=choices, code=code))
    # vacuity guard: the enumeration must have produced acceptances and each rejection class
    for need in ("ACC", "BTX", "FTX"):
        if need not in statuses and not seen:  # (with violations on record a missing class is part of the finding)
            from vf.runner import HarnessError

            raise HarnessError(f"C11 vacuous: status {need} never produced (got {sorted(statuses)})")

    n_bal = 0
    n_bal_changed = 0
    for ev in range(len(ENGINE_VARIANTS)):
        for ca, cb in itertools.product(range(3), repeat=2):
            for B in (4, 5):
                for M in (6, 8, 10, 16):
                    bad, rec = ballistic_case(ev, ca, cb, B, M)
                    n_bal += 1
                    if rec:
                        ctx.distinct(("ballistic", ev, ca, cb, B, M, str(rec.get("first"))))
                        if rec["first"][0] and any(rec["changed"]):
                            n_bal_changed += 1
                    for code, text in bad:
                        sig = f"ballistic:{code}"
                        if sig not in seen:
                            seen.add(sig)
                            ctx.violation(sig, text, dict(kind="ballistic", ev=ev, ca=ca, cb=cb, B=B, M=M))
    if n_bal_changed < 10 and not seen:
        from vf.runner import HarnessError

        raise HarnessError(f"C11 vacuous: only {n_bal_changed} accepted ballistic swaps changed a path")
    ctx.set("ballistic_swaps_that_changed_a_path", n_bal_changed)
    n_q = run_quantis(ctx)
    n_l = run_lm1(ctx)
    ctx.set("evaluations", n_swap + n_bal + n_q + n_l)
    ctx.set("states", len(sres) + n_bal)
    ctx.set("transitions", n_swap + n_bal + n_q + n_l)
    ctx.set("traces_validated_against_impl", n_swap + n_bal + n_q + n_l)
    ctx.set("swap_executions", n_swap)
    ctx.set("ballistic_cases", n_bal)
    ctx.set("quantis_executions", n_q)
    ctx.set("lambda_minus_one_executions", n_l)
    ctx.set("statuses_seen", sorted(statuses))
    ctx.set("rule", "state = (configuration, old [0-] path, old [0+] path); transition = one complete execution of the real swap; "
                    "distinct = (case, number/kind of outcomes)")
    ctx.sample(dict(example=str(sres[len(sres) // 2][:2]), outcomes=[str(o) for o in sres[len(sres) // 2][4][:4]]))
    ctx.assume("QuanTIS engines are ballistic toy engines with tabulated potentials; beta and vpot are read by the real quantis_swap_zero")


def replay(data):
    out = []
    k = data["kind"]
    if k == "swap":
        name, B, M, move1, cap = data["key"]
        dyn = lat.SYMMETRIC(B) if name == "sym" else lat.DRIFTED(B)
        o0, o1 = (tuple(x) for x in data["olds"])
        r = moves.swap_fn(dyn, o0, o1, M, move1=move1, cap=cap)(Chooser(data["choices"]))
        for code, text in r["clauses"]:
            out.append((f"swap0:{code}", text))
        if not r["accept"] and r["status"] not in ("BTX", "BTS", "FTX", "FTS", "0-L", "HAS"):
            out.append(("swap0:status", r["status"]))
    elif k == "ballistic":
        bad, _ = ballistic_case(data["ev"], data["ca"], data["cb"], data["B"], data["M"])
        out = [(f"ballistic:{c}", t) for c, t in bad]
    elif k in ("quantis", "quantis-eq", "lm1"):
        class C:
            def __init__(self):
                self.v = []

            def violation(self, s, m, r):
                self.v.append((s, m))

            def distinct(self, *_):
                pass
        c = C()
        (run_lm1 if k == "lm1" else run_quantis)(c)
        out = c.v
    return out
