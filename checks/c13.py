"""C13 — on-the-fly trajectory readers never return a torn frame.

Text readers (xyz_reader = CP2K, lammpstrj_reader = LAMMPS): the reader is a
deterministic function of (current_position, visible bytes).  For every
trajectory of the alphabet we compute the closure of the graph whose nodes are
(position, frames returned so far) and whose edges are "c' bytes are visible,
reader is called", for EVERY c' not smaller than the smallest visible length at
which the node can be reached.  That covers all sequences of cut points of any
length at byte granularity, not only single cuts.

TRR (GromacsRunner.get_gromacs_frames) is a generator bound to a process; it is
explored by checks/c13_trr.py (imported here when present).
"""

from __future__ import annotations

import itertools
import os

import numpy as np

from vf import scratch
from vf.explore import digest

LEVEL = "model_checking"


# ---------------------------------------------------------------------------
# trajectory alphabet (writers are harness-side, formats from the readers'
# docstrings and test/engines/data)
# ---------------------------------------------------------------------------

NUM_STYLES = {
    # name -> list of tokens cycled through for successive values
    "fixed": ["0.0000000000", "1.2500000000", "-7.7500000000", "12.5000000000"],
    "short": ["0", "1", "-2", "3.5"],
    "exp": ["1.5e-03", "-2.25E+01", "4e0", "-7.75e+00"],
    "mixed": ["-7.75", "0.5", "1e-3", "-0"],
}


def _tokens(style, offset=0):
    toks = NUM_STYLES[style]
    return itertools.cycle(toks[offset % len(toks):] + toks[: offset % len(toks)])


def make_xyz(n_atoms, n_frames, style, trailing_newline=True):
    """CP2K-like xyz trajectory.  Returns (text, frames, frame_ends)."""
    out = []
    frames = []
    ends = []
    tk = _tokens(style)
    pos = 0
    for f in range(n_frames):
        lines = [f"{n_atoms:8d}\n", f" i = {f:8d}, time = {0.5 * f:12.3f}, E = {-1.17 - f:20.10f}\n"]
        arr = []
        for a in range(n_atoms):
            vals = [next(tk) for _ in range(3)]
            arr.append([float(v) for v in vals])
            lines.append(f"  H  {vals[0]:>20s} {vals[1]:>20s} {vals[2]:>20s}\n")
        txt = "".join(lines)
        out.append(txt)
        pos += len(txt)
        ends.append(pos)
        frames.append(np.array(arr, dtype=np.float64))
    text = "".join(out)
    if not trailing_newline:
        text = text[:-1]
    return text, frames, ends


def make_lammpstrj(n_atoms, n_frames, style, id_order, box_cols):
    """LAMMPS custom dump: id type x y z vx vy vz id."""
    out = []
    frames = []
    boxes = []
    ends = []
    tk = _tokens(style, 1)
    pos = 0
    for f in range(n_frames):
        lines = ["ITEM: TIMESTEP\n", f"{f * 10}\n", "ITEM: NUMBER OF ATOMS\n", f"{n_atoms}\n"]
        if box_cols == 3:
            lines.append("ITEM: BOX BOUNDS xy xz yz pp pp pp\n")
        else:
            lines.append("ITEM: BOX BOUNDS pp pp pp\n")
        box = np.zeros((3, 3))
        for d in range(3):
            lo, hi = 0.0 + 0.25 * f, 10.0 + d + 0.5 * f
            if box_cols == 3:
                tilt = 0.0 if d < 2 else 0.125 * f
                lines.append(f"{lo:.16e} {hi:.16e} {tilt:.16e}\n")
                box[d] = [lo, hi, tilt]
            else:
                lines.append(f"{lo:.16e} {hi:.16e}\n")
                box[d] = [lo, hi, 0.0]
        lines.append("ITEM: ATOMS id type x y z vx vy vz id\n")
        arr = np.zeros((n_atoms, 6))
        for aid in id_order:
            vals = [next(tk) for _ in range(6)]
            arr[aid - 1] = [float(v) for v in vals]
            lines.append(f"{aid} 1 " + " ".join(vals) + f" {aid}\n")
        txt = "".join(lines)
        out.append(txt)
        pos += len(txt)
        ends.append(pos)
        frames.append(arr)
        boxes.append(box)
    return "".join(out), list(zip(frames, boxes)), ends


# ---------------------------------------------------------------------------
# evaluating the real reader at (position, visible length)
# ---------------------------------------------------------------------------


class ReaderHarness:
    def __init__(self, kind, text, workdir):
        from infretis.classes.engines import engineparts as ep

        self.kind = kind
        self.text = text
        self.data = text.encode()
        self.path = os.path.join(workdir, f"traj-{os.getpid()}.{kind}")
        self.func = ep.xyz_reader if kind == "xyz" else ep.lammpstrj_reader
        self.cls = ep.ReadAndProcessOnTheFly
        self.cache = {}
        self.calls = 0
        self._visible = None

    def call(self, pos, vis):
        """Return (frames, new_pos, exc) for the real reader."""
        key = (pos, vis)
        if key in self.cache:
            return self.cache[key]
        if self._visible != vis:
            with open(self.path, "wb") as f:
                f.write(self.data[:vis])
            self._visible = vis
        rd = self.cls(self.path, self.func)
        rd.current_position = pos
        self.calls += 1
        try:
            out = rd.read_and_process_content()
            exc = None
        except Exception as e:  # noqa: BLE001 - "never raise on a partial frame"
            out = None
            exc = f"{type(e).__name__}: {e}"
        if exc is None:
            if self.kind == "xyz":
                frames = [np.array(a, dtype=np.float64) for a in out]
            else:
                tr, bx = out
                if len(tr) != len(bx):
                    exc = f"trajectory/box length mismatch {len(tr)} != {len(bx)}"
                    frames = []
                else:
                    frames = [(np.array(a), np.array(b)) for a, b in zip(tr, bx)]
        else:
            frames = []
        res = (frames, rd.current_position, exc)
        self.cache[key] = res
        return res


def _frame_equal(kind, got, exp):
    if kind == "xyz":
        return got.shape == exp.shape and np.array_equal(got, exp)
    return (
        got[0].shape == exp[0].shape
        and np.array_equal(got[0], exp[0])
        and got[1].shape == exp[1].shape
        and np.array_equal(got[1], exp[1])
    )


def _cut_class(kind, text, c):
    """Describe where a visible-length c falls in the line structure."""
    if c >= len(text):
        return "eof"
    before = text[:c]
    line_start = before.rfind("\n") + 1
    line_end = text.find("\n", c)
    if line_end < 0:
        line_end = len(text)
    line = text[line_start:line_end]
    part = text[line_start:c]
    if c == line_start:
        where = "line-start"
    elif c == line_end:
        where = "before-newline"
    else:
        toks_full = line.split()
        toks_part = part.split()
        if part[-1:].isspace():
            where = f"after-token-{len(toks_part)}of{len(toks_full)}"
        elif len(toks_part) == len(toks_full):
            where = "in-last-token"
        else:
            where = "in-token"
    if kind == "xyz":
        toks = line.split()
        if len(toks) == 1 and toks[0].isdigit():
            lt = "natoms"
        elif line.lstrip().startswith("i ="):
            lt = "comment"
        else:
            lt = "atom"
    else:
        if line.startswith("ITEM:"):
            lt = "item"
        else:
            n = len(line.split())
            lt = {1: "scalar", 2: "box", 3: "box", 9: "atom"}.get(n, f"cols{n}")
    return f"{lt}:{where}"


def check_step(kind, text, expected, ends, k, frames, exc, c2):
    """Safety oracle for one reader call.  Returns list of (kind, msg)."""
    bad = []
    if exc is not None:
        bad.append(("raised", exc))
        return bad
    n_complete = sum(1 for e in ends if e <= c2)
    # a frame whose last value is complete but whose newline is not yet
    # visible may be returned (LAMMPS' trailing-id sentinel proves it); the
    # values must then still be exact.  So allowed count is frames whose
    # bytes except the final newline are visible.
    n_allowed = sum(1 for e in ends if e - 1 <= c2)
    for j, fr in enumerate(frames):
        idx = k + j
        if idx >= len(expected):
            bad.append(("extra-frame", f"frame #{idx} returned but only {len(expected)} written"))
            break
        if idx >= n_allowed:
            # returned a frame that is not completely on disk; see whether
            # it is at least value-exact to classify
            same = _frame_equal(kind, fr, expected[idx])
            bad.append(
                (
                    "torn-frame" if not same else "early-frame",
                    f"frame #{idx} returned with {c2} bytes visible "
                    f"(frame complete at {ends[idx]}); values "
                    f"{'differ from' if not same else 'equal'} the written ones",
                )
            )
            continue
        if not _frame_equal(kind, fr, expected[idx]):
            bad.append(("wrong-values", f"frame #{idx} differs from written values"))
    return bad


def explore_traj(ctx, kind, text, expected, ends, workdir, meta):
    """Closure over (position, frames-so-far); returns stats."""
    H = ReaderHarness(kind, text, workdir)
    total = len(text)
    # node -> (min visible length at arrival, parent node, cut that led here)
    nodes = {(0, 0): (0, None, None)}
    work = [(0, 0)]
    transitions = 0
    outcomes = set()
    seen_viol = set()

    def history(node, last_cut):
        cuts = [last_cut]
        while nodes[node][1] is not None:
            cuts.append(nodes[node][2])
            node = nodes[node][1]
        return list(reversed(cuts))

    while work:
        node = work.pop()
        pos, k = node
        cmin = nodes[node][0]
        for c2 in range(max(cmin, 0), total + 1):
            frames, pos2, exc = H.call(pos, c2)
            transitions += 1
            bad = check_step(kind, text, expected, ends, k, frames, exc, c2)
            k2 = k + len(frames)
            outcomes.add((pos, c2 >= total, len(frames), pos2 - pos if exc is None else -1))
            # completeness: with c2 bytes visible and no further growth, at
            # most one more call must deliver every complete frame
            if not bad:
                n_complete = sum(1 for e in ends if e <= c2)
                if k2 < n_complete:
                    fr3, pos3, exc3 = H.call(pos2, c2)
                    transitions += 1
                    bad3 = check_step(kind, text, expected, ends, k2, fr3, exc3, c2)
                    if bad3:
                        bad = bad3
                    elif k2 + len(fr3) < n_complete:
                        bad = [
                            (
                                "missing-frame",
                                f"{n_complete} frames complete at {c2} bytes but only "
                                f"{k2 + len(fr3)} returned after two polls",
                            )
                        ]
            if bad:
                for bk, msg in bad:
                    sig = f"{kind}_reader:{bk}:{_cut_class(kind, text, c2)}"
                    if sig in seen_viol:
                        continue
                    seen_viol.add(sig)
                    ctx.violation(
                        sig,
                        f"{meta}: {msg}; cuts={history(node, c2)}",
                        dict(kind=kind, text=text, cuts=history(node, c2), meta=meta),
                    )
                continue  # do not expand past a violating step
            if pos2 > c2:
                sig = f"{kind}_reader:position-beyond-visible:{_cut_class(kind, text, c2)}"
                if sig not in seen_viol:
                    seen_viol.add(sig)
                    ctx.violation(sig, f"{meta}: position {pos2} > visible {c2}",
                                  dict(kind=kind, text=text, cuts=history(node, c2), meta=meta))
                continue
            nxt = (pos2, k2)
            if nxt not in nodes or nodes[nxt][0] > c2:
                nodes[nxt] = (c2, node, c2)
                work.append(nxt)
    return dict(states=len(nodes), transitions=transitions, calls=H.calls, outcomes=len(outcomes))


def run_sequence(kind, text, cuts):
    """Replay one sequence of visible lengths against the real reader with the
    plain oracle (used by --replay and by the self-check)."""
    wd = scratch.mkdtemp("c13r")
    try:
        if kind == "xyz":
            expected, ends = _parse_expected_xyz(text)
        else:
            expected, ends = _parse_expected_lmp(text)
        H = ReaderHarness(kind, text, wd)
        pos, k = 0, 0
        out = []
        obs = []
        for c2 in cuts:
            frames, pos2, exc = H.call(pos, c2)
            obs.append((c2, len(frames), pos2, exc))
            bad = check_step(kind, text, expected, ends, k, frames, exc, c2)
            k2 = k + len(frames)
            if not bad:
                n_complete = sum(1 for e in ends if e <= c2)
                if k2 < n_complete:
                    fr3, pos3, exc3 = H.call(pos2, c2)
                    bad = check_step(kind, text, expected, ends, k2, fr3, exc3, c2)
                    if not bad and k2 + len(fr3) < n_complete:
                        bad = [("missing-frame", "complete frame not delivered after two polls")]
            for bk, msg in bad:
                out.append((f"{kind}_reader:{bk}:{_cut_class(kind, text, c2)}", msg))
            if bad:
                break
            if pos2 > c2:
                out.append((f"{kind}_reader:position-beyond-visible:{_cut_class(kind, text, c2)}", f"position {pos2} > visible {c2}"))
                break
            pos, k = pos2, k2
        return out, obs
    finally:
        scratch.rmtree(wd)


def _parse_expected_xyz(text):
    """Independent parse of a complete xyz text (harness-side reference)."""
    frames, ends = [], []
    lines = text.split("\n")
    # rebuild offsets
    off = 0
    i = 0
    raw = text
    while i < len(lines) and lines[i].strip():
        n = int(lines[i].split()[0])
        blk = lines[i: i + n + 2]
        if len(blk) < n + 2:
            break
        arr = [[float(x) for x in ln.split()[1:4]] for ln in blk[2:]]
        size = sum(len(ln) + 1 for ln in blk)
        off += size
        if off > len(raw) + 1:
            break
        frames.append(np.array(arr, dtype=np.float64))
        ends.append(off)
        i += n + 2
    return frames, ends


def _parse_expected_lmp(text):
    frames, ends = [], []
    lines = text.split("\n")
    off = 0
    i = 0
    while i + 3 < len(lines) and lines[i].startswith("ITEM: TIMESTEP"):
        n = int(lines[i + 3])
        blk = lines[i: i + 9 + n]
        if len(blk) < 9 + n:
            break
        box = np.zeros((3, 3))
        for d in range(3):
            v = [float(x) for x in blk[5 + d].split()]
            box[d, : len(v)] = v
        arr = np.zeros((n, 6))
        for ln in blk[9:]:
            t = ln.split()
            arr[int(t[0]) - 1] = [float(x) for x in t[2:8]]
        off += sum(len(ln) + 1 for ln in blk)
        frames.append((arr, box))
        ends.append(off)
        i += 9 + n
    return frames, ends


def replay(data):
    if data.get("kind") == "live":
        return replay_live(data)
    if data.get("kind") == "trr":
        from checks import c13_trr

        return c13_trr.replay(data)
    out, _ = run_sequence(data["kind"], data["text"], data["cuts"])
    return out


# ---------------------------------------------------------------------------


def alphabet(ctx):
    quick = ctx.quick
    trajs = []
    # xyz
    atoms = (1, 2) if quick else (1, 2, 3, 10)
    nframes = (1, 2) if quick else (1, 2, 3)
    styles = ("fixed", "mixed") if quick else tuple(NUM_STYLES)
    for na in atoms:
        for nf in nframes:
            for st in styles:
                if na == 10 and (st != "fixed" or nf != 2):
                    continue
                for tnl in (True, False):
                    if not tnl and (quick and st != "mixed"):
                        continue
                    text, frames, ends = make_xyz(na, nf, st, trailing_newline=tnl)
                    if not tnl:
                        # last frame never gets its newline
                        ends = ends[:-1] + [len(text) + 1]
                    trajs.append(("xyz", text, frames, ends, f"xyz atoms={na} frames={nf} fmt={st} final_newline={tnl}"))
    # lammps (>= 2 atoms: the reader relies on 2-D tables)
    atoms = (2,) if quick else (2, 3, 11)
    for na in atoms:
        orders = list(itertools.permutations(range(1, na + 1))) if na <= 3 else [
            tuple(range(1, na + 1)), tuple(range(na, 0, -1))]
        if quick:
            orders = orders[:2]
        for nf in nframes:
            for st in (("exp",) if quick else ("exp", "short", "fixed")):
                for od in orders:
                    for bc in (2, 3):
                        if na == 11 and (nf != 2 or st != "exp"):
                            continue
                        if not quick and na == 3 and st != "exp" and od != orders[-1]:
                            continue
                        text, frames, ends = make_lammpstrj(na, nf, st, od, bc)
                        trajs.append(("lammpstrj", text, frames, ends,
                                      f"lammpstrj atoms={na} frames={nf} fmt={st} ids={list(od)} boxcols={bc}"))
    return trajs


def live_sequences(ctx, kind, text, expected, ends, workdir, meta, quick):
    """Conformance of the closure's abstraction 'reader state = position': ONE live ReadAndProcessOnTheFly
    object, as in the engines, polled at c1, at c2 > c1, at c2 again (no growth), and twice at the full
    size.  c1: every byte; c2: every line end, the byte before and the byte after it (the quick tier takes
    every third c1).  Oracle: every poll returns only complete, value-exact frames; at the end every frame
    has been delivered exactly once, in order."""
    from infretis.classes.engines import engineparts as ep

    data = text.encode()
    total = len(data)
    path = os.path.join(workdir, f"live-{os.getpid()}.{kind}")
    func = ep.xyz_reader if kind == "xyz" else ep.lammpstrj_reader
    marks = sorted({m for i, ch in enumerate(text) if ch == "\n" for m in (i, i + 1, i + 2) if 0 < m <= total})
    n = 0
    done = set()
    for c1 in range(1, total, 3 if quick else 1):
        for c2 in marks:
            if c2 <= c1:
                continue
            with open(path, "wb") as f:
                f.write(data[:c1])
            rd = ep.ReadAndProcessOnTheFly(path, func)
            got = 0
            bad = None
            seq = (c1, c2, c2, total, total)
            vis = c1
            for c in seq:
                if c != vis:
                    with open(path, "ab") as f:
                        f.write(data[vis:c])
                    vis = c
                n += 1
                try:
                    out = rd.read_and_process_content()
                except Exception as e:  # noqa: BLE001
                    bad = ("raised", f"{type(e).__name__}: {e}")
                    break
                if kind == "xyz":
                    frames = [np.array(a, dtype=np.float64) for a in out]
                else:
                    frames = [(np.array(a), np.array(b)) for a, b in zip(*out)]
                b = check_step(kind, text, expected, ends, got, frames, None, c)
                if b:
                    bad = b[0]
                    break
                got += len(frames)
            # a last frame whose final newline never arrives may or may not be delivered (don't care)
            n_must = sum(1 for e in ends if e <= total)
            if bad is None and got < n_must:
                bad = ("missing-frame", f"{got} of {n_must} complete frames delivered after the file was fully written and polled twice")
            if bad is not None:
                sig = f"{kind}_reader:live:{bad[0]}"
                if sig not in done:
                    done.add(sig)
                    ctx.violation(sig, f"{meta}: one reader object polled at {list(seq)} visible bytes: {bad[1]}",
                                  dict(kind="live", rkind=kind, text=text, seq=list(seq), meta=meta))
    return n


def replay_live(data):
    from infretis.classes.engines import engineparts as ep

    kind, text, seq = data["rkind"], data["text"], data["seq"]
    expected, ends = _parse_expected_xyz(text if text.endswith("\n") else text + "\n") if kind == "xyz" else _parse_expected_lmp(text)
    wd = scratch.mkdtemp("c13l")
    try:
        raw = text.encode()
        path = os.path.join(wd, f"live.{kind}")
        with open(path, "wb") as f:
            f.write(raw[: seq[0]])
        rd = ep.ReadAndProcessOnTheFly(path, ep.xyz_reader if kind == "xyz" else ep.lammpstrj_reader)
        vis, got = seq[0], 0
        for c in seq:
            if c != vis:
                with open(path, "ab") as f:
                    f.write(raw[vis:c])
                vis = c
            try:
                out = rd.read_and_process_content()
            except Exception as e:  # noqa: BLE001
                return [(f"{kind}_reader:live:raised", f"{type(e).__name__}: {e}")]
            frames = [np.array(a, dtype=np.float64) for a in out] if kind == "xyz" else [(np.array(a), np.array(b)) for a, b in zip(*out)]
            b = check_step(kind, text, expected, ends, got, frames, None, c)
            if b:
                return [(f"{kind}_reader:live:{b[0][0]}", b[0][1])]
            got += len(frames)
        n_must = sum(1 for e in ends if e <= len(raw))
        if got < n_must:
            return [(f"{kind}_reader:live:missing-frame", f"{got} of {n_must} frames delivered")]
        return []
    finally:
        scratch.rmtree(wd)


def _work(args):
    from vf.runner import Ctx

    idx, (kind, text, frames, ends, meta), tier = args
    sub = Ctx("C13", tier, 0)
    wd = scratch.mkdtemp("c13")
    try:
        # reference parser must agree with the writer (harness self-check)
        if kind == "xyz":
            pf, pe = _parse_expected_xyz(text if text.endswith("\n") else text + "\n")
        else:
            pf, pe = _parse_expected_lmp(text)
        assert len(pf) == len(frames), (meta, len(pf), len(frames))
        st = explore_traj(sub, kind, text, frames, ends, wd, meta)
        st["live_polls"] = 0
        if len(frames) >= 2 and len(text) < 1500:
            st["live_polls"] = live_sequences(sub, kind, text, frames, ends, wd, meta, tier == "quick")
    finally:
        scratch.rmtree(wd)
    return idx, meta, len(text), st, sub.violations


def run(ctx):
    import multiprocessing as mp

    trajs = alphabet(ctx)
    rot = ctx.seed % max(1, len(trajs))
    trajs = trajs[rot:] + trajs[:rot]  # seed rotates order only
    jobs = [(i, t, ctx.tier) for i, t in enumerate(trajs)]
    with mp.get_context("fork").Pool(min(16, os.cpu_count() or 1)) as pool:
        results = pool.map(_work, jobs, chunksize=1)
    states = transitions = calls = live = 0
    for idx, meta, size, st, viols in sorted(results, key=lambda r: r[1]):
        states += st["states"]
        transitions += st["transitions"]
        calls += st["calls"] + st.get("live_polls", 0)
        live += st.get("live_polls", 0)
        ctx.distinct((meta, st["states"], st["outcomes"]))
        if len(ctx.samples) < 4:
            ctx.sample(dict(trajectory=meta, bytes=size, nodes=st["states"],
                            reader_calls=st["calls"], distinct_call_outcomes=st["outcomes"]))
        for v in viols:
            ctx.violation(v["signature"], v["message"], v["replay"])
    ctx.set("states", states)
    ctx.set("transitions", transitions)
    ctx.set("evaluations", calls)
    ctx.set("trajectories", len(trajs))
    ctx.set("live_reader_polls", live)
    ctx.set("traces_validated_against_impl", transitions)
    ctx.set("rule", "node = (reader position, frames delivered); edge = reader called with c' "
                    "visible bytes for every c' >= the smallest length at which the node is reachable; "
                    "distinct = (trajectory, #nodes, #distinct call outcomes)")
    # determinism self-check: one multi-cut sequence replayed twice
    kind, text, frames, ends, meta = trajs[0]
    cuts = [len(text) // 3, 2 * len(text) // 3, len(text)]
    o1 = run_sequence(kind, text, cuts)[1]
    o2 = run_sequence(kind, text, cuts)[1]
    if o1 != o2:
        from vf.runner import HarnessError

        raise HarnessError("C13 self-check: same cut sequence, different observations")
    ctx.set("determinism_selfcheck", digest(o1))
    ctx.assume("writers in the harness emit the formats the real programs emit (CP2K xyz; LAMMPS 'dump custom id type x y z vx vy vz id')")
    ctx.assume("a frame whose values are complete but whose final newline is not yet visible may or may not be returned (don't care); values must be exact either way")
    ctx.assume("the closure abstracts the reader object to its position; this is checked against one live reader object polled at (c1, c2, c2, full, full) for every byte c1 and every line boundary c2 (live_reader_polls)")
    ctx.assume("completeness = every complete frame is delivered after at most two polls of the same bytes (the engines poll twice after the program exits)")
    try:
        from checks import c13_trr
    except ImportError:
        c13_trr = None
    if c13_trr is not None:
        c13_trr.run_part(ctx)
