"""C10 — wire-fencing weights are exact, symmetric and drive segment choice.

Exhaustive enumeration of all order-parameter sequences up to a length over a
small alphabet of values placed at / between the interfaces, against a
reference decomposition into sub-paths; the selection law is decided by
enumerating every cell of the uniform draw the real code compares against.
"""

from __future__ import annotations

import itertools
import os
from fractions import Fraction

from vf import lattice as lat
from vf import scripted_rng as sr
from vf.explore import explore
from vf.ref import latticepaths as lp

from infretis.core import tis

LEVEL = "exploration"

# interface layouts: (lambda0, left, right(cap), lambdaB)
LAYOUTS = [
    (1.0, 2.0, 4.0, 4.0),  # left > lambda0, cap = last interface
    (1.0, 1.0, 4.0, 4.0),  # left == lambda0 ([0+] ensemble)
    (1.0, 2.0, 3.0, 4.0),  # cap below the last interface
    (1.0, 1.0, 3.0, 4.0),
]


def alphabet(lay):
    l0, left, right, lB = lay
    vals = [l0 - 1.0, l0]
    if left > l0:
        vals += [(l0 + left) / 2, left]
    vals += [left + (right - left) * 0.25, left + (right - left) * 0.75, right]
    if lB > right:
        vals += [(right + lB) / 2]
    vals += [lB + 1.0]
    if lB not in vals:
        vals += [lB]
    return sorted(set(vals))


def mk(order):
    from infretis.classes.path import Path

    p = Path(maxlen=1000)
    for k, v in enumerate(order):
        p.append(lat.mk_system(0, t=k, config=("f", k)))
        p.phasepoints[-1].order = [float(v)]
    p.generated = ("sh", 0.0, 0, 0)
    return p


def ref_vector(order, interfaces, moves, cap):
    """Weight vector from the property text."""
    pmax = max(order)
    out = []
    for idx, lam in enumerate(interfaces[:-1]):
        if moves[idx + 1] == "wf":
            right = cap if cap is not None else interfaces[-1]
            out.append(float(lp.ha_weight(order, interfaces[0], lam, right)))
        else:
            out.append(1.0 if lam <= pmax else 0.0)
    out.append(0.0)
    return tuple(out)


def _job(args):
    lay_idx, L, first = args
    lay = LAYOUTS[lay_idx]
    l0, left, right, lB = lay
    vals = alphabet(lay)
    bad = []
    n = 0
    nontrivial = set()
    for rest in itertools.product(vals, repeat=L - 1):
        order = (first,) + rest
        n += 1
        path = mk(order)
        w_impl, _ = tis.wirefence_weight_and_pick(path, left, right)
        subs = lp.wf_subpaths(order, left, right)
        w_ref = sum(s[2] for s in subs)
        if w_impl != w_ref:
            bad.append(("wf-weight", order, f"weight {w_impl} != reference {w_ref}"))
        w_rev, _ = tis.wirefence_weight_and_pick(mk(order[::-1]), left, right)
        if w_rev != w_impl:
            bad.append(("wf-reversal", order, f"weight {w_impl} but reversed path has {w_rev}"))
        if (w_impl > 0) != (len(subs) > 0):
            bad.append(("wf-positive", order, f"weight {w_impl} vs counted sub-paths {subs}"))
        if len(subs) >= 1:
            nontrivial.add((len(subs), tuple(s[2] for s in subs)))
        # compute_weight on complete paths (both ends outside [lambda0, right))
        def outside(v):
            return v <= l0 or v >= right
        if outside(order[0]) and outside(order[-1]):
            cw = tis.compute_weight(path, [l0, left, right], "wf")
            rw = lp.ha_weight(order, l0, left, right)
            if cw != rw:
                bad.append(("compute-weight", order, f"compute_weight {cw} != reference {rw}"))
            cw_r = tis.compute_weight(mk(order[::-1]), [l0, left, right], "wf")
            if cw_r != cw:
                bad.append(("compute-weight-reversal", order, f"{cw} vs reversed {cw_r}"))
        if len(bad) > 20:
            break
    return lay_idx, L, n, bad, len(nontrivial)


def selection_law(ctx, lay, order):
    """All cells of subpath_select: each returned segment is a counted
    sub-path, with total probability frames/n_frames."""
    l0, left, right, lB = lay
    subs = lp.wf_subpaths(order, left, right)
    n_frames = sum(s[2] for s in subs)

    def fn(ch):
        sr.use(ch)
        rg = sr.make()
        path = mk(order)
        n, seg = tis.wirefence_weight_and_pick(path, left, right, return_seg=True, ens_set={"rgen": rg})
        return n, tuple(pp.config[1] for pp in seg.phasepoints)

    got = {}
    nex = 0
    for ch, (n, idxs) in explore(fn):
        nex += 1
        got[idxs] = got.get(idxs, Fraction(0)) + ch.prob()
    exp = {}
    for a, b, k in subs:
        exp[tuple(range(a, b + 1))] = Fraction(k, n_frames)
    if n_frames == 0:
        exp = {(): Fraction(1)}
    # the code compares a double-precision uniform number with double-precision thresholds: a cell of
    # probability 1/3 has measure 6004799503160661/2**54, not 1/3 (difference 2**-54)
    if set(got) != set(exp) or any(abs(got[k] - exp[k]) > Fraction(1, 10**12) for k in exp):
        ctx.violation("wf-selection-law", f"layout {lay} order {order}: segments drawn {got} but expected {exp}",
                      dict(kind="select", lay=list(lay), order=list(order)))
    return nex


def vector_rules(ctx, Lmax):
    """calc_cv_vector for 3 and 4 interfaces, all move lists."""
    n = 0
    done = set()
    base = (([1.0, 2.0, 4.0], None, 0.0), ([1.0, 2.0, 3.0, 4.0], None, 0.0), ([1.0, 2.0, 3.0, 4.0], 3.5, 0.0),
            # the origin of the order-parameter axis is arbitrary: the same layouts moved so that the cap,
            # the first or the last interface is exactly 0.0
            ([1.0, 2.0, 3.0, 4.0], 3.5, -3.5), ([1.0, 2.0, 3.0, 4.0], 3.5, -1.0), ([1.0, 2.0, 3.0, 4.0], 3.0, -3.0),
            ([1.0, 2.0, 4.0], None, -4.0))
    for interfaces0, cap0, shift in base:
        interfaces = [x + shift for x in interfaces0]
        cap = None if cap0 is None else cap0 + shift
        lo_out, hi_out = interfaces[0] - 1.0, interfaces[-1] + 1.0
        vals = sorted(set([lo_out] + interfaces + [(a + b) / 2 for a, b in zip(interfaces[:-1], interfaces[1:])] + [hi_out]
                          + ([cap] if cap is not None else [])))
        nplus = len(interfaces)
        for moves in itertools.product(("sh", "wf"), repeat=nplus):
            mv = ["sh"] + list(moves)
            for L in range(3, Lmax + 1):
                for mid in itertools.product(vals, repeat=L - 2):
                    for end in (lo_out, hi_out):
                        order = (lo_out,) + mid + (end,)
                        n += 1
                        got = tis.calc_cv_vector(mk(order), interfaces, mv, cap=cap)
                        exp = ref_vector(order, interfaces, mv, cap)
                        if tuple(float(x) for x in got) != exp and "vec" not in done:
                            done.add("vec")
                            ctx.violation("cv-vector", f"interfaces {interfaces} cap {cap} moves {mv} order {order}: {got} != {exp}",
                                          dict(kind="vec", interfaces=interfaces, cap=cap, moves=mv, order=list(order)))
        if shift:
            continue
        # minus paths
        for L in range(3, 6):
            for mid in itertools.product((-1.0, 0.0, 0.5), repeat=L - 2):
                order = (1.5,) + mid + (1.5,)
                n += 1
                got = tis.calc_cv_vector(mk(order), interfaces, ["sh"] * (nplus + 1), minus=True)
                if tuple(got) != (1.0,) and "minus" not in done:
                    done.add("minus")
                    ctx.violation("cv-vector-minus", f"valid [0-] path {order}: weights {got} != (1,)",
                                  dict(kind="vecminus", interfaces=interfaces, order=list(order)))
    return n


def run(ctx):
    import multiprocessing as mp

    Lmax = 6 if ctx.quick else 7
    jobs = []
    for li, lay in enumerate(LAYOUTS):
        for L in range(2, Lmax + 1):
            for first in alphabet(lay):
                jobs.append((li, L, first))
    with mp.get_context("fork").Pool(min(16, os.cpu_count() or 1)) as pool:
        res = pool.map(_job, jobs, chunksize=4)
    n = 0
    seen = set()
    for li, L, k, bad, nt in res:
        n += k
        ctx.distinct(("seqs", li, L, nt))
        for code, order, text in bad:
            if code not in seen:
                seen.add(code)
                ctx.violation(code, f"layout {LAYOUTS[li]} order {order}: {text}",
                              dict(kind="seq", lay=list(LAYOUTS[li]), order=list(order), code=code))
    # selection law on every sequence with >= 1 counted sub-path up to a smaller length
    nsel = 0
    Ls = 5 if ctx.quick else 6
    for lay in LAYOUTS[:2] if ctx.quick else LAYOUTS:
        vals = alphabet(lay)
        for L in range(3, Ls + 1):
            for order in itertools.product(vals, repeat=L):
                if lp.wf_subpaths(order, lay[1], lay[2]):
                    nsel += selection_law(ctx, lay, order)
                    ctx.distinct(("sel", tuple(s[2] for s in lp.wf_subpaths(order, lay[1], lay[2]))))
    # longer paths with three and four counted sub-paths of different sizes (the exhaustive lengths above
    # reach two at most): the pick must still be proportional to the frame counts
    for lay in LAYOUTS:
        l0, left, right, lB = lay
        lo, hi = l0 - 1.0, lB + 1.0
        a, b, c = left + (right - left) * 0.25, left + (right - left) * 0.5, left + (right - left) * 0.75
        for order in ((lo, a, lo, a, b, lo, a, b, c, hi),
                      (lo, a, b, c, hi, b, a, lo, c, lo),
                      (hi, c, b, hi, a, lo, a, lo, b, c, a, hi),
                      (lo, a, hi, c, b, lo, a, b, hi, a, lo)):
            if len(lp.wf_subpaths(order, left, right)) >= 3:
                nsel += selection_law(ctx, lay, order)
                ctx.distinct(("sel-long", tuple(s[2] for s in lp.wf_subpaths(order, left, right))))
    nvec = vector_rules(ctx, 4 if ctx.quick else 5)
    ctx.set("evaluations", n + nsel + nvec)
    ctx.set("sequences", n)
    ctx.set("selection_executions", nsel)
    ctx.set("vector_cases", nvec)
    ctx.set("rule", "all order sequences of length 2..Lmax over a per-layout alphabet (below/at lambda0, between, at left, two interior, at right, above, at/above lambdaB); "
                    "distinct = multiset of counted sub-path sizes per (layout, length) and per selection case")
    ctx.sample(dict(layout=LAYOUTS[0], alphabet=alphabet(LAYOUTS[0]), Lmax=Lmax))
    ctx.sample(dict(order=[0.0, 2.5, 3.5, 0.0, 2.5, 5.0], subpaths=lp.wf_subpaths([0.0, 2.5, 3.5, 0.0, 2.5, 5.0], 2.0, 4.0)))
    ctx.assume("compute_weight is compared on complete paths only (both ends outside [lambda0, cap)); a segment that starts inside has no defined 'connects the two sides'")


def replay(data):
    out = []
    k = data["kind"]
    if k == "seq":
        lay = tuple(data["lay"])
        r = _one(lay, tuple(data["order"]))
        out = [(c, t) for c, _, t in r if c == data["code"]]
    elif k == "select":
        class C:
            v = []

            def violation(self, s, m, r):
                self.v.append((s, m))
        c = C()
        c.v = []
        selection_law(c, tuple(data["lay"]), tuple(data["order"]))
        out = c.v
    elif k == "vec":
        got = tis.calc_cv_vector(mk(data["order"]), data["interfaces"], data["moves"], cap=data["cap"])
        exp = ref_vector(tuple(data["order"]), data["interfaces"], data["moves"], data["cap"])
        if tuple(float(x) for x in got) != exp:
            out.append(("cv-vector", f"{got} != {exp}"))
    elif k == "vecminus":
        got = tis.calc_cv_vector(mk(data["order"]), data["interfaces"], ["sh"] * 8, minus=True)
        if tuple(got) != (1.0,):
            out.append(("cv-vector-minus", str(got)))
    return out


def _one(lay, order):
    l0, left, right, lB = lay
    bad = []
    path = mk(order)
    w_impl, _ = tis.wirefence_weight_and_pick(path, left, right)
    subs = lp.wf_subpaths(order, left, right)
    w_ref = sum(s[2] for s in subs)
    if w_impl != w_ref:
        bad.append(("wf-weight", order, f"weight {w_impl} != reference {w_ref}"))
    w_rev, _ = tis.wirefence_weight_and_pick(mk(order[::-1]), left, right)
    if w_rev != w_impl:
        bad.append(("wf-reversal", order, f"{w_impl} vs {w_rev}"))
    if (w_impl > 0) != (len(subs) > 0):
        bad.append(("wf-positive", order, ""))
    if (order[0] <= l0 or order[0] >= right) and (order[-1] <= l0 or order[-1] >= right):
        cw = tis.compute_weight(path, [l0, left, right], "wf")
        if cw != lp.ha_weight(order, l0, left, right):
            bad.append(("compute-weight", order, f"{cw}"))
        if tis.compute_weight(mk(order[::-1]), [l0, left, right], "wf") != cw:
            bad.append(("compute-weight-reversal", order, ""))
    return bad
