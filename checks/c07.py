"""C07 — every job gets its own random stream.

Part 1 (scheduler): stateless exploration of the real REPEX_state with real
files and process restarts (vf/l1.py, replay from scratch — snapshots would
reset numpy's spawn counters): W in 1..3, every completion order and every
restart placement (at most two) exhaustively, job outcomes and pick outcomes
up to a deviation bound, several seeds.  For every issued job the seed-sequence
identity (entropy, spawn_key) and the initial bit-generator state of its move
stream and its engine stream are recorded.
Part 2 (engines): each engine class is run twice with the same job stream but
different global numpy/random state (outputs must agree) and with two job
streams (outputs must differ).
"""

from __future__ import annotations

import os

from vf import l1, scratch
from vf.explore import Chooser, explore

LEVEL = "model_checking"


class StreamObserver(l1.Observer):
    pass


def mkspec(W, seed):
    # streams do not depend on which path is accepted: a two-letter outcome alphabet suffices
    return l1.Spec(B=3 if W < 3 else 4, workers=W, seed=seed, real_store=True, alphabet="min")


def run_one(spec, n_events, max_restarts, ch, wd, budget=True):
    """One history: returns list of issued-job records with job identities."""
    run = l1.L1Run(spec, ch, wd, [])
    run.start()
    marks = []  # (index in run.issued where a restart batch begins, lost jobs)
    for k in range(n_events):
        if run.restarts < max_restarts:
            r = ch.choose(3 if budget else 2, "restart")
            if r:
                lost = [(tuple(md["ens_nums"]), tuple(md["pnum_old"])) for md in run.inflight]
                n0 = len(run.issued)
                if r == 1:
                    marks.append((n0, lost, recorded_jobs(run)))
                    run.restart()
                else:
                    # the user restarts with a budget of one more step (recorded jobs beyond it are not
                    # resumed), lets that run finish, then extends the run
                    marks.append((n0, lost, recorded_jobs(run)))
                    run.restart(steps=run.state.cstep + 1)
                    while run.event():
                        pass
                    lost = [(tuple(md["ens_nums"]), tuple(md["pnum_old"])) for md in run.inflight]
                    n0 = len(run.issued)
                    marks.append((n0, lost, recorded_jobs(run)))
                    run.restart(steps=10**6)
        run.event()
    return run, marks


def recorded_jobs(run):
    """The in-flight jobs the restart file on disk knows about: [(ens, path numbers)]."""
    import tomli

    p = os.path.join(run.dir, "restart.toml")
    if not os.path.isfile(p):
        return []
    with open(p, "rb") as f:
        cur = tomli.load(f)["current"]
    off = run.state._offset
    return [(tuple(int(e) - off for e in l[0]), tuple(int(x) for x in l[1])) for l in cur.get("locked", [])]


def assign_ordinals(issued, marks):
    """Job identity.  A job lost in a kill and its re-issue (same ensembles and paths, issued in the
    restart batch) are one job.  A lost job that the restart file records keeps its ordinal even if it
    is never resumed.  A lost job the restart file does not know (drawn after the last write) has left
    no trace: as far as the run on disk is concerned it never existed, and its ordinal is free again."""
    ordinals = []
    nxt = 0
    mark_at = {m[0]: m for m in marks}
    lost_map = {}
    inflight = {}
    for idx, rec in enumerate(issued):
        if idx in mark_at:
            _, lost, recorded = mark_at[idx]
            lost_map = {k: inflight.get(k) for k in lost}
            forgotten = [o for k, o in lost_map.items() if o is not None and k not in recorded]
            if forgotten:
                nxt = min(nxt, min(forgotten))
            lost_map = {k: o for k, o in lost_map.items() if k in recorded}
            inflight = {}
        key = (rec["ens"], rec["pn"])
        if key in lost_map and lost_map[key] is not None:
            o = lost_map.pop(key)
        else:
            o = nxt
            nxt += 1
        ordinals.append(o)
        inflight[key] = o
    return ordinals


def judge_history(issued, marks, reference, seed):
    """Returns list of (sig, msg)."""
    out = []
    ords = assign_ordinals(issued, marks)
    by_job = {}
    for rec, o in zip(issued, ords):
        by_job.setdefault(o, []).append(rec)
    # (1) pairwise distinct across jobs, and distinct from the scheduler stream
    owner = {}
    for o, recs in sorted(by_job.items()):
        for rec in recs:
            sched = rec["scheduler"]
            for pos, e in enumerate(rec["ens"]):
                for kind, key in zip(("move", "engine"), rec["streams"][e]):
                    ident = key[:2]
                    for idk, what in ((("key",) + ident, "seed-sequence identity"), (("state", key[2]), "initial generator state")):
                        prev = owner.get(idk)
                        if prev is not None and prev[0] != o:
                            post = "after-restart" if (rec["restarts"] or prev[1]) else "no-restart"
                            roles = "concurrent" if prev[1] == rec["restarts"] and abs(prev[2] - rec["cstep"]) <= 3 else "successive"
                            out.append((f"collision:{post}",
                                        f"job #{o} (ens {rec['ens']}, {kind} stream {key[:2]}) has the same {what} as job #{prev[0]} "
                                        f"({prev[3]} stream); restarts so far {rec['restarts']}"))
                        owner.setdefault(idk, (o, rec["restarts"], rec["cstep"], kind))
                    if ident == sched[:2] or key[2] == sched[2]:
                        out.append(("collision:scheduler-stream", f"job #{o} {kind} stream equals the scheduler's stream"))
    # (3) function of (seed, ordinal) only
    for o, recs in by_job.items():
        for rec in recs:
            for pos, e in enumerate(rec["ens"]):
                got = tuple(k[:2] + (k[2],) for k in rec["streams"][e])
                ref = reference.get((o, pos))
                if ref is None:
                    continue
                if got != ref:
                    which = "after-restart" if rec["restarts"] else "no-restart"
                    out.append((f"not-a-function-of-seed-and-ordinal:{which}",
                                f"job #{o} position {pos}: streams {got[0][:2]}/{got[1][:2]} but the same ordinal gets "
                                f"{ref[0][:2]}/{ref[1][:2]} in a restart-free run (seed {seed}, restarts {rec['restarts']})"))
    # dedupe by signature
    seen = {}
    for sig, msg in out:
        seen.setdefault(sig, msg)
    return list(seen.items())


def reference_streams(spec, n_jobs, wd):
    """Streams of the i-th issued job in a restart-free default history."""
    ch = Chooser([])
    run = l1.L1Run(spec, ch, wd, [])
    run.start()
    while len(run.issued) < n_jobs:
        run.event()
    ref = {}
    for i, rec in enumerate(run.issued):
        for pos, e in enumerate(rec["ens"]):
            ref[(i, pos)] = tuple(k[:2] + (k[2],) for k in rec["streams"][e])
    return ref


def _job(args, procs=1):
    """One (W, seed) exploration; with procs > 1 the executions of each wave run in a process pool."""
    from vf.explore import explore_waves

    W, seed, depth, max_dev, max_restarts, budget = args
    spec = mkspec(W, seed)
    top = scratch.mkdtemp("c07")
    wd = os.path.join(top, "run")
    old = os.getcwd()
    viols = {}
    n = 0
    shapes = set()
    try:
        ref = reference_streams(spec, depth + W + 2, wd)

        def fn(ch):
            # one run directory per process
            run, marks = run_one(spec, depth, max_restarts, ch, f"{wd}-{os.getpid()}", budget=budget)
            return run.issued, marks

        def post(ch, res):
            rp = dict(kind="hist", W=W, seed=seed, depth=depth, budget=budget, max_restarts=max_restarts, choices=ch.choices)
            if isinstance(res, l1.Violation):
                return None, [(res.sig, res.msg, rp)]
            issued, marks = res
            shape = (len(issued), len(marks), tuple(m[0] for m in marks))
            return shape, [(sig, msg, rp) for sig, msg in judge_history(issued, marks, ref, seed)]

        if procs > 1:
            it = explore_waves(l1._guard(fn), post, procs, max_dev=max_dev, free=("complete", "restart"))
        else:
            it = (post(ch, res) for ch, res in explore(l1._guard(fn), max_dev=max_dev, free=("complete", "restart")))
        for shape, found in it:
            n += 1
            if shape is not None:
                shapes.add(shape)
            for sig, msg, rp in found:
                if sig not in viols or len(rp["choices"]) < len(viols[sig][1]["choices"]):
                    viols[sig] = (msg, rp)
    finally:
        os.chdir(old)
        l1.deactivate()
        scratch.rmtree(top)
    return (W, seed), n, len(shapes), viols


def run(ctx):
    import multiprocessing as mp

    depth = 3 if ctx.quick else 4
    max_dev = 1 if ctx.quick else 2
    seeds = sorted({0, 1, 7, 2 + ctx.seed % 1000})
    # a restart with a budget only differs from a plain one when more than one job is on record (W >= 3)
    jobs = [(W, seed, depth if W < 3 else 3, max_dev if W < 3 else 1, 2, W >= 3 or not ctx.quick) for W in (3, 2, 1) for seed in seeds
            if W < 3 or not ctx.quick or seed in (1, 7)]
    procs = min(16, os.cpu_count() or 1)
    # the W=3 explorations are the long ones: run their waves in parallel, the others side by side
    big = [j for j in jobs if j[0] >= 3]
    small = [j for j in jobs if j[0] < 3]
    res = [_job(j, procs=procs) for j in big]
    with mp.get_context("fork").Pool(procs) as pool:
        res += pool.map(_job, small, chunksize=1)
    n = 0
    for key, k, shapes, viols in res:
        n += k
        ctx.distinct(("histories", key, shapes))
        for sig, (msg, rp) in viols.items():
            ctx.violation(f"scheduler:{sig}:W{'1' if key[0] == 1 else '>1'}", f"W={key[0]} seed={key[1]}: {msg}", rp)
    ctx.set("states", n)
    ctx.set("transitions", n * depth)
    ctx.set("evaluations", n)
    ctx.set("traces_validated_against_impl", n)
    ctx.set("histories", n)
    ctx.set("depth_events", depth)
    ctx.set("deviation_bound_completed", max_dev)
    ctx.set("rule", "history = (completion order, restart placement (<=2), job outcomes, pick outcomes); completion order and "
                    "restarts exhaustive, the rest up to the deviation bound; distinct = shapes (jobs issued, restart positions) per (W, seed)")
    ctx.sample(dict(W=2, seed=1, depth=depth, example="complete=[1,0,..], restart after event 2, outcome REJ"))
    ctx.exhaustive = False
    ctx.caps.append(f"job/pick outcomes explored up to {max_dev} deviation(s) from the default; completion orders and restarts exhaustive")
    ctx.assume("a job lost in a kill and its re-issue (same ensembles and paths) count as one job; a job drawn after the last restart-file write and lost in the kill has left no trace on disk and does not count as a job")
    try:
        from checks import c07_engines
    except ImportError:
        c07_engines = None
    if c07_engines is not None:
        c07_engines.run_part(ctx)


def replay(data):
    if data.get("kind") in ("engine", "lammps-seed"):
        from checks import c07_engines

        return c07_engines.replay(data)
    W, seed, depth = data["W"], data["seed"], data["depth"]
    spec = mkspec(W, seed)
    wd = os.path.join(scratch.mkdtemp("c07r"), "run")
    old = os.getcwd()
    try:
        ref = reference_streams(spec, depth + W + 2, wd)
        res = l1._guard(lambda ch: run_one(spec, depth, data["max_restarts"], Chooser(data["choices"]), wd, budget=data.get("budget", True)))(None)
        if isinstance(res, l1.Violation):
            return [(f"scheduler:{res.sig}:W{'1' if W == 1 else '>1'}", res.msg)]
        run, marks = res
        return [(f"scheduler:{s}:W{'1' if W == 1 else '>1'}", m) for s, m in judge_history(run.issued, marks, ref, seed)]
    finally:
        os.chdir(old)
        l1.deactivate()
