"""C15 — path algebra: paste, reverse, copy and classification are consistent.

Exhaustive small inputs against a list model: all backward/forward segment
pairs of length 0..4 x maxlen x overlap; reverse with and without velocity
flip and with a velocity-dependent order function; aliasing after copy / += /
append; all operation sequences of depth <= 3 over
{append, +=, copy, reverse, paste, reassign-field}; classification for all
order sequences of length <= 5 over {<L,=L,(L,M),=M,(M,R),=R,>R} and several
interface triples (incl. L = M).
"""

from __future__ import annotations

import itertools

import numpy as np

from infretis.classes.path import Path, paste_paths
from infretis.classes.system import System

LEVEL = "exploration"


EXTRA_CV = [False]  # frames carry a second collective variable (order = [main, extra]); only the first one counts


def frame(tag, order=None, vel_rev=False):
    s = System()
    s.order = [float(order if order is not None else tag)]
    if EXTRA_CV[0]:
        s.order.append(1000.0 - 7.0 * s.order[0])
    s.config = (f"f{tag}", int(tag))
    s.vel_rev = vel_rev
    s.vel = np.array([[1.0 if not vel_rev else -1.0]])
    return s


def obs(path):
    return [(pp.order[0], pp.config, pp.vel_rev) for pp in path.phasepoints]


def mkpath(tags, maxlen, base=0, time_origin=0):
    p = Path(maxlen=maxlen, time_origin=time_origin)
    for t in tags:
        p.phasepoints.append(frame(base + t))
    return p


# ---------------------------------------------------------------------------


def paste_cases(ctx):
    n = 0
    done = set()
    for lb in range(0, 5):
        for lf in range(0, 5):
            for overlap in (True, False):
                for maxlen in (None, 1, 2, 3, 4, 5, 6, 7, 8):
                    for mb, mf in ((10, 10), (3, 7), (7, 3)):
                        back = mkpath(range(lb), mb, base=0, time_origin=5)
                        forw = mkpath(range(lf), mf, base=100)
                        if overlap and lb and lf:
                            # shared shooting point: first frames coincide
                            forw.phasepoints[0] = back.phasepoints[0].copy()
                        b0, f0 = obs(back), obs(forw)
                        new = paste_paths(back, forw, overlap=overlap, maxlen=maxlen)
                        n += 1
                        ml = maxlen
                        if ml is None:
                            ml = mb if mb == mf else max(mb, mf)
                        ref = list(reversed(b0)) + (f0[1:] if overlap else f0)
                        full = len(ref)
                        ref = ref[:ml]
                        ctx.distinct(("paste", lb, lf, overlap, ml < full))
                        bad = None
                        if obs(new) != ref:
                            bad = ("paste:frames", f"got {obs(new)} expected {ref}")
                        elif new.maxlen != ml:
                            bad = ("paste:maxlen", f"maxlen {new.maxlen} != {ml}")
                        elif obs(back) != b0 or obs(forw) != f0:
                            bad = ("paste:inputs-modified", "input segments changed")
                        elif lb and new.length and obs(new)[0] != b0[-1]:
                            bad = ("paste:first-frame", "does not begin with the last backward frame")
                        elif new.time_origin != back.time_origin - back.length + 1:
                            bad = ("paste:time-origin", f"{new.time_origin}")
                        if bad and bad[0] not in done:
                            done.add(bad[0])
                            ctx.violation(bad[0], f"back={lb} forw={lf} overlap={overlap} maxlen={maxlen} segmaxlens={mb, mf}: {bad[1]}",
                                          dict(kind="paste", lb=lb, lf=lf, overlap=overlap, maxlen=maxlen, mb=mb, mf=mf))
    return n


class VelOrder:
    velocity_dependent = True

    def calculate(self, system):
        return [(-1.0 if system.vel_rev else 1.0) * (system.config[1] + 1)]


class PosOrder:
    velocity_dependent = False

    def calculate(self, system):
        return [float(system.config[1])]


def reverse_cases(ctx):
    n = 0
    done = set()

    def viol(sig, msg, rp):
        if sig not in done:
            done.add(sig)
            ctx.violation(sig, msg, rp)

    for L in range(0, 6):
        for flags in itertools.product((False, True), repeat=L):
            for rev_v in (True, False):
                for of in (None, PosOrder(), VelOrder()):
                    p = Path(maxlen=9)
                    for k, fl in enumerate(flags):
                        fr = frame(k, vel_rev=fl)
                        if of is not None:
                            fr.order = of.calculate(fr)
                        p.phasepoints.append(fr)
                    p.weights = (1.0, 0.0)
                    before = obs(p)
                    r = p.reverse(of, rev_v=rev_v)
                    n += 1
                    ctx.distinct(("reverse", L, rev_v, type(of).__name__))
                    exp = []
                    for (o, c, v) in reversed(before):
                        v2 = (not v) if rev_v else v
                        o2 = o
                        if of is not None and of.velocity_dependent and rev_v:
                            o2 = (-1.0 if v2 else 1.0) * (c[1] + 1)
                        exp.append((o2, c, v2))
                    rp = dict(kind="reverse", flags=list(flags), rev_v=rev_v, of=type(of).__name__)
                    if obs(r) != exp:
                        viol("reverse:frames", f"flags={flags} rev_v={rev_v} order_function={type(of).__name__}: got {obs(r)} expected {exp}", rp)
                    if obs(p) != before:
                        viol("reverse:original-modified", f"flags={flags}: original changed", rp)
                    rr = r.reverse(of, rev_v=rev_v)
                    if rev_v or True:
                        want = before if rev_v else before
                        if obs(rr) != want:
                            viol("reverse:twice", f"flags={flags} rev_v={rev_v} of={type(of).__name__}: reversing twice gives {obs(rr)} not {before}", rp)
                    if r.maxlen != p.maxlen or r.weights != p.weights:
                        viol("reverse:attributes", "maxlen/weights not carried over", rp)
    return n


FIELDS = ("order", "config", "vel_rev", "vpot", "ekin", "pos", "vel")


def alias_cases(ctx):
    """Re-assigning a field of a copied path's frame never changes the original."""
    n = 0
    done = set()
    for how in ("copy", "iadd", "reverse", "reverse_norev"):  # paste_paths shares frames with its inputs by design
        for L in (1, 2, 3):
            for k in range(L):
                for fld in FIELDS:
                    src = mkpath(range(L), 9)
                    other = mkpath(range(2), 9, base=50)
                    before = [dict(vars(pp)) for pp in src.phasepoints]
                    if how == "copy":
                        new = src.copy()
                        idx = k
                    elif how == "iadd":
                        new = Path(maxlen=9)
                        new += src
                        idx = k
                    elif how == "reverse":
                        new = src.reverse(None)
                        idx = L - 1 - k
                    elif how == "reverse_norev":
                        new = src.reverse(None, rev_v=False)
                        idx = L - 1 - k
                    elif how == "paste_back":
                        new = paste_paths(src, other, overlap=False, maxlen=20)
                        idx = L - 1 - k
                    else:
                        new = paste_paths(other, src, overlap=False, maxlen=20)
                        idx = 2 + k
                    tgt = new.phasepoints[idx]
                    val = {"order": [999.0], "config": ("zz", 9), "vel_rev": "X", "vpot": 1.5, "ekin": 2.5,
                           "pos": np.ones((1, 3)), "vel": np.ones((1, 3))}[fld]
                    setattr(tgt, fld, val)
                    n += 1
                    ctx.distinct(("alias", how, fld))
                    after = [dict(vars(pp)) for pp in src.phasepoints]
                    same = all(
                        (a[f] is b[f]) or (not isinstance(a[f], np.ndarray) and a[f] == b[f])
                        for a, b in zip(before, after) for f in a
                    )
                    if not same:
                        sig = f"alias:{how}:{fld}"
                        # paste_paths is documented to share frames with its inputs? The property
                        # speaks of copied paths: copy / += / reverse
                        if sig not in done:
                            done.add(sig)
                            ctx.violation(sig, f"{how}: re-assigning {fld} of frame {idx} of the derived path changed the original",
                                          dict(kind="alias", how=how, L=L, k=k, fld=fld))
    return n


# -- operation sequences against a list model -------------------------------


class Model:
    def __init__(self, frames, maxlen):
        self.frames = list(frames)
        self.maxlen = maxlen

    def append(self, fr):
        if self.maxlen is None or len(self.frames) < self.maxlen:
            self.frames.append(fr)
            return True
        return False

    def copy(self):
        return Model(self.frames, self.maxlen)

    def iadd(self, other):
        for fr in other.frames:
            if not self.append(fr):
                break

    def reverse(self, rev_v=True):
        return Model([(o, c, (not v) if rev_v else v) for (o, c, v) in reversed(self.frames)], self.maxlen)


def paste_model(b, f, overlap, maxlen):
    ml = maxlen
    if ml is None:
        ml = b.maxlen if b.maxlen == f.maxlen else max(b.maxlen, f.maxlen)
    fr = list(reversed(b.frames)) + (f.frames[1:] if overlap else f.frames)
    return Model(fr[:ml], ml)


OPS = []
for tgt in ("a", "b"):
    for t in (7, 8):
        OPS.append(("append", tgt, t))
OPS += [("iadd", "a", "b"), ("iadd", "b", "a"), ("copy", "a"), ("copy", "b"),
        ("reverse", "a", True), ("reverse", "b", False), ("reverse", "a", False),
        ("paste", True, None), ("paste", False, 3), ("paste", True, 4), ("swap",),
        # a frame's order parameter is re-assigned in place (what an engine does when it recomputes it)
        ("setorder", "a", 0, 55.0), ("setorder", "a", -1, -55.0), ("setorder", "b", 0, 33.0)]


def apply(op, real, model):
    k = op[0]
    if k == "append":
        fr = frame(op[2])
        r1 = real[op[1]].append(fr)
        r2 = model[op[1]].append((fr.order[0], fr.config, fr.vel_rev))
        if r1 != r2:
            return f"append returned {r1}, model {r2}"
    elif k == "iadd":
        real[op[1]] += real[op[2]]
        model[op[1]].iadd(model[op[2]])
    elif k == "copy":
        real[op[1]] = real[op[1]].copy()
        model[op[1]] = model[op[1]].copy()
    elif k == "reverse":
        real[op[1]] = real[op[1]].reverse(None, rev_v=op[2])
        model[op[1]] = model[op[1]].reverse(op[2])
    elif k == "paste":
        real["a"] = paste_paths(real["a"], real["b"], overlap=op[1], maxlen=op[2])
        model["a"] = paste_model(model["a"], model["b"], op[1], op[2])
    elif k == "swap":
        real["a"], real["b"] = real["b"], real["a"]
        model["a"], model["b"] = model["b"], model["a"]
    elif k == "setorder":
        if model[op[1]].frames:
            # frames may be shared between paths (+=, paste): the model follows object identity
            target = real[op[1]].phasepoints[op[2]]
            target.order = [op[3]]
            for nm in ("a", "b"):
                model[nm].frames = [(pp.order[0], c, v) if pp is target else (o, c, v)
                                    for pp, (o, c, v) in zip(real[nm].phasepoints, model[nm].frames)]
    for name in ("a", "b"):
        if obs(real[name]) != model[name].frames:
            return f"path {name}: {obs(real[name])} != model {model[name].frames}"
        if real[name].maxlen != model[name].maxlen:
            return f"path {name}: maxlen {real[name].maxlen} != model {model[name].maxlen}"
        # derived quantities always describe the current frames
        fr = model[name].frames
        if real[name].length != len(fr):
            return f"path {name}: length {real[name].length} != {len(fr)}"
        if fr:
            orders = [f[0] for f in fr]
            for what, got, want in (("ordermax", real[name].ordermax, max(orders)), ("ordermin", real[name].ordermin, min(orders))):
                if got[0] != want or orders[int(got[1])] != want:
                    return f"path {name}: {what} = {tuple(got)} but the frames have orders {orders}"
            st, en, _, cross = real[name].check_interfaces([1.5, 2.5, 21.5])
            want_cross = [min(orders) < x <= max(orders) for x in (1.5, 2.5, 21.5)]
            if list(cross) != want_cross:
                return f"path {name}: check_interfaces reports crossings {list(cross)} but orders are {orders}"
    return None


def opseq_cases(ctx, depth):
    n = 0
    done = False
    for la, lb in itertools.product((0, 1, 3), (0, 2)):
        for seq in itertools.product(range(len(OPS)), repeat=depth):
            real = {"a": mkpath(range(la), 4), "b": mkpath(range(lb), 5, base=20)}
            model = {"a": Model(obs(real["a"]), 4), "b": Model(obs(real["b"]), 5)}
            n += 1
            for i in seq:
                err = apply(OPS[i], real, model)
                if err:
                    if not done:
                        done = True
                        ctx.violation("opseq:model-disagreement",
                                      f"start lengths {la},{lb} ops {[OPS[j] for j in seq]}: {err}",
                                      dict(kind="opseq", la=la, lb=lb, seq=list(seq)))
                    break
        ctx.distinct(("opseq", la, lb, depth))
    return n


# -- classification -----------------------------------------------------------


def classify_cases(ctx, Lmax):
    n = 0
    for extra in (False, True):
        EXTRA_CV[0] = extra
        try:
            n += _classify_cases(ctx, Lmax if not extra else min(Lmax, 4))
        finally:
            EXTRA_CV[0] = False
    return n


def _classify_cases(ctx, Lmax):
    n = 0
    done = set()
    # the origin of the axis is arbitrary: the same triples moved so that the right, middle or left interface is 0.0
    for (L_, M_, R_) in ((1.0, 2.0, 3.0), (1.0, 1.0, 3.0), (1.0, 3.0, 3.0), (2.0, 2.0, 2.0),
                         (-2.0, -1.0, 0.0), (-1.0, 0.0, 1.0), (0.0, 1.0, 2.0), (-2.0, -2.0, 0.0), (0.0, 0.0, 0.0)):
        vals = sorted({L_ - 1, L_, (L_ + M_) / 2, M_, (M_ + R_) / 2, R_, R_ + 1})
        for n_ in range(1, Lmax + 1):
            for order in itertools.product(vals, repeat=n_):
                p = Path(maxlen=10)
                for k, v in enumerate(order):
                    p.phasepoints.append(frame(k, order=v))
                n += 1
                intf = [L_, M_, R_]
                try:
                    start, end, mid, cross = p.check_interfaces(intf)
                    p.ordermax, p.ordermin, p.get_start_point(L_, R_), p.get_end_point(L_, R_)
                except Exception as e:  # noqa: BLE001 - raised by the code under test: a verdict
                    if "classify:raised" not in done:
                        done.add("classify:raised")
                        ctx.violation("classify:raised", f"interfaces {intf} orders {[list(pp.order) for pp in p.phasepoints]}: {type(e).__name__}: {e}",
                                      dict(kind="classify", intf=intf, order=list(order), extra=EXTRA_CV[0]))
                    continue
                omin, omax = min(order), max(order)
                e_start = "L" if order[0] <= L_ else ("R" if order[0] >= R_ else "?")
                e_end = "L" if order[-1] <= L_ else ("R" if order[-1] >= R_ else None)
                e_cross = [omin < x <= omax for x in intf]
                e_mid = "M" if e_cross[1] else "*"
                rp = dict(kind="classify", intf=intf, order=list(order), extra=EXTRA_CV[0])
                if (start, end, mid, list(cross)) != (e_start, e_end, e_mid, e_cross):
                    if "classify:check_interfaces" not in done:
                        done.add("classify:check_interfaces")
                        ctx.violation("classify:check_interfaces",
                                      f"interfaces {intf} order {order}: got {(start, end, mid, cross)} expected {(e_start, e_end, e_mid, e_cross)}", rp)
                if p.get_start_point(L_, R_) != e_start or p.get_end_point(L_, R_) != e_end:
                    if "classify:start-end" not in done:
                        done.add("classify:start-end")
                        ctx.violation("classify:start-end", f"interfaces {intf} order {order}", rp)
                mx, mn = p.ordermax, p.ordermin
                if (mx[0], int(mx[1])) != (omax, order.index(omax)) or (mn[0], int(mn[1])) != (omin, order.index(omin)):
                    if "classify:extremes" not in done:
                        done.add("classify:extremes")
                        ctx.violation("classify:extremes", f"order {order}: ordermax {mx} ordermin {mn}", rp)
        ctx.distinct(("classify", L_, M_, R_))
    return n


def run(ctx):
    n1 = paste_cases(ctx)
    n2 = reverse_cases(ctx)
    n3 = alias_cases(ctx)
    n4 = opseq_cases(ctx, 3 if ctx.quick else 4)
    n5 = classify_cases(ctx, 5 if ctx.quick else 6)
    ctx.set("evaluations", n1 + n2 + n3 + n4 + n5)
    ctx.set("paste_cases", n1)
    ctx.set("reverse_cases", n2)
    ctx.set("alias_cases", n3)
    ctx.set("operation_sequences", n4)
    ctx.set("classification_cases", n5)
    ctx.set("rule", "full products of small domains (segment lengths 0..4, maxlen None/1..8, overlap, velocity flags, op sequences over a 15-op alphabet, "
                    "order sequences over a 7-symbol alphabet); distinct = parameter classes")
    ctx.sample(dict(paste=dict(back=[0, 1, 2], forw=[0, 101, 102], overlap=True, maxlen=4, expect=[2, 1, 0, 101])))
    ctx.sample(dict(ops=[list(map(str, OPS[0])), list(map(str, OPS[4])), list(map(str, OPS[11]))]))


def replay(data):
    class C:
        def __init__(self):
            self.v = []
            self.quick = False

        def violation(self, s, m, r):
            self.v.append((s, m))

        def distinct(self, *_):
            pass
    c = C()
    k = data["kind"]
    if k == "paste":
        paste_cases(c)
    elif k == "reverse":
        reverse_cases(c)
    elif k == "alias":
        alias_cases(c)
    elif k == "opseq":
        opseq_cases(c, len(data["seq"]))
    else:
        classify_cases(c, len(data["order"]))
    return c.v
