#!/venv/bin/python
"""Regenerates MANIFEST.json from the table below (kept valid at all times)."""
import json, os
HERE = os.path.dirname(os.path.abspath(__file__))
CHECKS = {}
NA = {}

def chk(pid, cat, text, note, technique, design):
    CHECKS[pid] = dict(
        property_id=pid,
        quick_cmd=f"bin/check {pid} --tier quick",
        thorough_cmd=f"bin/check {pid} --tier thorough",
        evidence_file=f"evidence/{pid}.json",
        replay_cmd_template=f"bin/check {pid} --replay {{path}}",
        engine="vf",
        level_claimed=dict(category=cat, text=text, design_ref=design),
        level_note=note,
        technique=technique,
    )

exec(open(os.path.join(HERE, "manifest_table.py")).read())

props = [json.loads(l)["id"] for l in open(os.path.join(HERE, "properties.jsonl"))]
na = [dict(property_id=p, reason=NA.get(p, "check not built yet (see DESIGN.md section 8 build order); no claim is made"))
      for p in props if p not in CHECKS]
man = dict(
    version=1,
    setup_cmd="bin/selftest",
    hooks=dict(
        guard="INFRETIS_VERIF",
        enable="no in-source hooks: every seam is reached by rebinding module attributes from /verif; checks import /repo's working tree directly (sys.path[0]=/repo)",
        baseline_off_cmd="bin/baseline",
        source_commits=[],
        add_only=True,
    ),
    engines=[dict(name="vf", path="vf/", serves_properties=sorted(CHECKS),
                  kind_free_text="hand-written stateless explorer (all choice sequences with exact probabilities, prefix replay) and worklist closure over canonical states, run on the real infretis code")],
    checks=[CHECKS[p] for p in sorted(CHECKS)],
    notes="See DESIGN.md. Fixed defects and open findings: known_findings.json.",
    not_applicable=na,
)
json.dump(man, open(os.path.join(HERE, "MANIFEST.json"), "w"), indent=1)
print("checks:", sorted(CHECKS), "not claimed:", [x["property_id"] for x in na])
